"""
VISIT family: visitor / resolver protocols (DESIGN.md section 3 "VISIT").
"""
import ast

from sa.cfg import CFG, expr_guards, facts
from sa.model import AnalysisError, Finding, FunctionInfo, dump, enclosing_fn, loc, names_in, src

SCOPE_NODES = ("FunctionDef", "AsyncFunctionDef", "Lambda", "ListComp", "SetComp", "DictComp", "GeneratorExp", "ClassDef")


def _attr_chain(e):
    parts = []
    while isinstance(e, ast.Attribute):
        parts.append(e.attr)
        e = e.value
    if isinstance(e, ast.Name):
        parts.append(e.id)
    return ".".join(reversed(parts))


# ---------------------------------------------------------------------------- VISIT-1 / VISIT-2 / VISIT-6
def _is_loc_eq(atom, allow_parent=False, any_polarity=False):
    """atom is `X._location == self.search` (or, with allow_parent, `== self.search[:-1]`), in either order; with
    any_polarity `!=` counts too (an exact comparison written negatively)."""
    if not (isinstance(atom, ast.Compare) and len(atom.ops) == 1 and isinstance(atom.ops[0], (ast.Eq, ast.NotEq) if any_polarity else ast.Eq)):
        return False
    sides = [atom.left, atom.comparators[0]]
    loc_side = [s for s in sides if isinstance(s, ast.Attribute) and s.attr == "_location"]
    other = [s for s in sides if s not in loc_side]
    if len(loc_side) != 1 or len(other) != 1:
        return False
    o = other[0]
    if _attr_chain(o) in ("self.search", "search"):
        return "exact"
    if allow_parent and isinstance(o, ast.Subscript) and _attr_chain(o.value) in ("self.search", "search") and isinstance(o.slice, ast.Slice) \
            and o.slice.lower is None and o.slice.step is None and isinstance(o.slice.upper, ast.UnaryOp) and isinstance(o.slice.upper.op, ast.USub) \
            and isinstance(o.slice.upper.operand, ast.Constant) and o.slice.upper.operand.value == 1:
        return "parent"
    return False


def _parent_replaces_args(ci):
    """some method of the replacer stores a new element into an argument list (`.args` / `.kwonlyargs`) that it searched
    with the exact location test, and records the replacement"""
    for m in ci.methods.values():
        nodes = list(ast.walk(m.node))
        over_args = any(isinstance(x, ast.Attribute) and x.attr in ("args", "kwonlyargs") and isinstance(x.value, ast.Attribute) and x.value.attr == "args" for x in nodes) \
            or any(isinstance(x, ast.Call) and isinstance(x.func, ast.Name) and x.func.id == "getattr" and len(x.args) >= 2 and isinstance(x.args[0], ast.Attribute) and x.args[0].attr == "args" for x in nodes)
        loc_eq = any(_is_loc_eq(x) == "exact" for x in nodes)
        elem_store = any(isinstance(x, ast.Assign) and any(isinstance(t, ast.Subscript) for t in x.targets) for x in nodes)
        flag = any(isinstance(x, ast.Assign) and any(isinstance(t, ast.Attribute) and t.attr == "replaced" for t in x.targets) for x in nodes)
        if over_args and loc_eq and elem_store and flag:
            return True
    return False


def rule_visit1(prog, rep, tier, anchor="ast_utils.RewriteAtQuery"):
    """VISIT-1: every visit_<T> override of the location replacer either returns the replacement under the location
    predicate or delegates to generic_visit on each path (otherwise nodes of type T can never be replaced)."""
    ci = prog.cls(anchor)
    gv = ci.methods.get("generic_visit")
    if gv is None:
        raise AnalysisError("VISIT-1: %s.generic_visit not found" % anchor)
    # the predicate must exist in generic_visit: every path that returns the replacement carries the fact
    # `node._location == self.search` (whatever the syntactic form: if-body, guard clause with `!=`, ...)
    pred_found = False
    gpaths = [p_ for p_ in CFG(gv.node).paths() if p_[-1][0].kind == "RETURN"]
    rets = 0
    unguarded = 0
    for path in gpaths:
        last = [n_.stmt for n_, _ in path if n_.stmt is not None and isinstance(n_.stmt, ast.Return)]
        if not last or not (isinstance(last[-1].value, ast.Attribute) and last[-1].value.attr == "replacement_node"):
            continue
        rets += 1
        fs = [f for n2, l in path if l is not None and l[0] not in ("iter", "except") for f in facts(l[0], l[1])]
        if not any(_is_loc_eq(a) == "exact" and p for a, p in fs):
            unguarded += 1
    pred_found = rets > 0 and unguarded == 0
    if not pred_found:
        rep.violation(Finding("VISIT-1", anchor, "generic_visit-predicate",
                              "generic_visit no longer returns the replacement exactly when node._location == self.search", loc(prog, gv.node)))
    else:
        rep.holds("VISIT-1", "generic_visit: replace iff node._location == self.search", loc(prog, gv.node), "")
    for name, m in sorted(ci.methods.items()):
        if not name.startswith("visit_"):
            continue
        cfg = CFG(m.node)
        bad = []
        total = 0
        for path in cfg.paths():
            if path[-1][0].kind != "RETURN":
                continue
            total += 1
            delegated = False
            replaced = False
            for node, label in path:
                if node.stmt is None:
                    continue
                roots = [node.stmt.test] if isinstance(node.stmt, (ast.If, ast.While)) else ([node.stmt.iter] if isinstance(node.stmt, ast.For) else [node.stmt])
                for r in roots:
                    for c in ast.walk(r):
                        if isinstance(c, ast.Call) and isinstance(c.func, ast.Attribute) and c.func.attr in ("generic_visit",):
                            delegated = True
                if isinstance(node.stmt, ast.Return) and isinstance(node.stmt.value, ast.Attribute) and node.stmt.value.attr == "replacement_node":
                    fs = [f for n2, l in path if l is not None and l[0] not in ("iter", "except") for f in facts(l[0], l[1])]
                    if any(_is_loc_eq(a) == "exact" and p for a, p in fs):
                        replaced = True
            if not (delegated or replaced):
                bad.append(path)
        if bad and name == "visit_arg" and _parent_replaces_args(ci):
            # arguments are the one node kind a parent handler replaces (it owns their defaults): an override that leaves
            # them alone does not make them unreplaceable
            rep.holds("VISIT-1", "%s leaves arguments to the function handler, which replaces the addressed one in its argument list" % name, loc(prog, m.node), "")
            continue
        if bad:
            rep.violation(Finding(
                "VISIT-1", "%s.%s" % (anchor, name), name,
                "%d of %d returning paths of %s neither return the replacement under `_location == search` nor delegate to generic_visit: "
                "NodeVisitor.visit dispatches here instead of generic_visit, so a %s at the addressed location can never be replaced (and its "
                "children are not visited)" % (len(bad), total, name, name[6:]), loc(prog, m.node)))
        else:
            rep.holds("VISIT-1", "%s: all %d paths delegate or replace" % (name, total), loc(prog, m.node), "")


def rule_visit7(prog, rep, tier, anchor="ast_utils.RewriteAtQuery"):
    """VISIT-7 (C11, C15, C14): as long as a `_location` is not the full path of a node (VISIT-4: it is built from the parent's simple
    name), what stands inside a function body can carry the location of a module-level definition of the same name - an
    assignment in an `if` block of `helper` has the one-element location of a class so named.  The replacer then must not descend
    into function bodies: for every kind of function definition the grammar has, its handler returns without delegating to
    `generic_visit`.  A kind without a handler is descended into by NodeTransformer's default.  When locations are inductive the
    clause is void."""
    ci = prog.cls(anchor)
    try:
        inductive = location_is_inductive(prog)
    except AnalysisError:
        inductive = False
    kinds = [k for k in ("FunctionDef", "AsyncFunctionDef") if hasattr(ast, k)]
    if inductive:
        rep.holds("VISIT-7", "%s: locations are full paths, descending into function bodies cannot meet a second node with the addressed location" % anchor,
                  loc(prog, ci.node), "")
        return
    for k in kinds:
        m = ci.methods.get("visit_" + k)
        if m is None:
            # an alias in the class body (`visit_AsyncFunctionDef = visit_FunctionDef`) is a handler too
            alias = next((st for st in ci.node.body if isinstance(st, ast.Assign) and any(isinstance(t, ast.Name) and t.id == "visit_" + k for t in st.targets)
                          and isinstance(st.value, ast.Name) and st.value.id in ci.methods), None)
            if alias is not None:
                m = ci.methods[alias.value.id]
        if m is None:
            rep.violation(Finding(
                "VISIT-7", anchor, "descends-into:%s" % k,
                "%s has no handler for %s: NodeTransformer's default visits the body of such a function, where a statement can carry the (two-element at most) "
                "location of a module-level definition of the same name - the local statement is replaced and the addressed definition is left as it was"
                % (anchor, k), loc(prog, ci.node)))
            continue
        deleg = [c for c in ast.walk(m.node) if isinstance(c, ast.Call) and isinstance(c.func, ast.Attribute) and c.func.attr == "generic_visit"]
        if deleg:
            rep.violation(Finding(
                "VISIT-7", "%s.%s" % (anchor, m.node.name), "descends-into:%s" % k,
                "%s delegates to generic_visit (%s) and so descends into the function's body, where a statement can carry the location of a module-level "
                "definition of the same name (locations are built from the parent's simple name, not its path): the local statement is replaced and the "
                "addressed definition is left as it was" % (m.node.name, src(deleg[0], 50)), loc(prog, deleg[0])))
        else:
            rep.holds("VISIT-7", "%s handles %s without descending into its body" % (m.node.name, k), loc(prog, m.node), "")


def rule_visit8(prog, rep, tier, anchor="ast_utils.RewriteAtQuery", caller="conformance._conform_filename"):
    """VISIT-8 (C10): sync decides "this target already is what would be written" by comparing the found node with the replacement
    *before* it hands the replacement to the replacer.  The comparison speaks for the written text only if the replacer puts the
    replacement in as it was given: no method of the replacer stores into a field of `self.replacement_node` (re-binding the
    attribute to another node, as the argument handler does, is not a store into the compared node).  A replacer that copies
    something from the replaced node onto the replacement (its decorators, its docstring) makes the two differ on every run: the
    target is rewritten with the same bytes and reported as modified for ever."""
    ci = prog.cls(anchor)
    cf = prog.fn(caller)
    # the comparison may have moved into a private helper of the caller
    compares = [c for f_ in prog.region(cf) for c in ast.walk(f_.node) if isinstance(c, ast.Call) and isinstance(c.func, ast.Name) and c.func.id == "cmp_ast"]
    if not compares:
        raise AnalysisError("VISIT-8: %s no longer compares the found node with the replacement (cmp_ast)" % caller)
    n = 0
    for name, m in sorted(ci.methods.items()):
        aliases = {"replacement_node"}
        for st in ast.walk(m.node):
            if isinstance(st, ast.Assign) and len(st.targets) == 1 and isinstance(st.targets[0], ast.Name) and isinstance(st.value, ast.Attribute) \
                    and st.value.attr == "replacement_node":
                aliases.add(st.targets[0].id)

        def is_repl(e):
            return (isinstance(e, ast.Attribute) and e.attr == "replacement_node" and isinstance(e.value, ast.Name) and e.value.id == "self") \
                or (isinstance(e, ast.Name) and e.id in aliases - {"replacement_node"})
        for st in ast.walk(m.node):
            tgts = st.targets if isinstance(st, ast.Assign) else [st.target] if isinstance(st, (ast.AugAssign, ast.AnnAssign)) else []
            for t in tgts:
                base = t
                while isinstance(base, ast.Subscript):
                    base = base.value
                if isinstance(base, ast.Attribute) and is_repl(base.value):
                    n += 1
                    rep.violation(Finding(
                        "VISIT-8", "%s.%s" % (anchor, name), "replacement-altered:%s" % base.attr,
                        "%s stores into the replacement node (%s) after %s has compared that node with the target: what is written is not what was compared, so a "
                        "target that has what is copied over (%s) never compares equal - every run rewrites it with the same bytes and reports it as modified"
                        % (name, src(st, 60), caller, base.attr), loc(prog, st)))
            if isinstance(st, ast.Call) and isinstance(st.func, ast.Name) and st.func.id == "setattr" and st.args and is_repl(st.args[0]):
                n += 1
                rep.violation(Finding("VISIT-8", "%s.%s" % (anchor, name), "replacement-altered:setattr",
                                      "%s stores into the replacement node (%s) after %s has compared that node with the target" % (name, src(st, 60), caller), loc(prog, st)))
    if n == 0:
        rep.holds("VISIT-8", "%s: %d method(s), none stores into a field of the replacement node" % (anchor, len(ci.methods)), loc(prog, ci.node),
                  "the node %s compared is the node that is written" % caller)


_STMT_KINDS = tuple(n for n in dir(ast) if isinstance(getattr(ast, n), type) and issubclass(getattr(ast, n), ast.stmt) and n != "stmt")


def rule_visit9(prog, rep, tier):
    """VISIT-9 (C19, C06): a `NodeTransformer` handler for a *statement* kind that answers None deletes such a statement wherever the
    transformer meets one - NodeTransformer descends into every block by default.  Where the statement was the only one of its block
    (`try: import ujson as json` / `except ImportError: import json`) the block is left empty and the module no longer unparses to
    something Python accepts.  Decided for every NodeTransformer subclass of the package: a handler of a statement kind has no path
    that returns None / falls off its end - unless the class keeps the transformer at the top level (a `generic_visit` override that
    does not descend)."""
    n = 0
    for m_ in prog.modules.values():
        for ci in m_.classes.values():
            bases = {b.id if isinstance(b, ast.Name) else getattr(b, "attr", "") for b in ci.node.bases}
            if "NodeTransformer" not in bases:
                continue
            gv = ci.methods.get("generic_visit")
            stays_on_top = gv is not None and not any(isinstance(c, ast.Call) and isinstance(c.func, ast.Attribute) and c.func.attr == "generic_visit" for c in ast.walk(gv.node))
            vm = ci.methods.get("visit_Module")
            if vm is not None and not any(isinstance(c, ast.Call) and isinstance(c.func, ast.Attribute) and c.func.attr in ("generic_visit", "visit") for c in ast.walk(vm.node)):
                stays_on_top = True   # the module handler does its work on the top-level list and visits nothing below it
            handlers = dict(ci.methods)
            for st in ci.node.body:   # aliases: `visit_ImportFrom = visit_Import`
                if isinstance(st, ast.Assign) and isinstance(st.value, ast.Name) and st.value.id in ci.methods:
                    for t in st.targets:
                        if isinstance(t, ast.Name):
                            handlers[t.id] = ci.methods[st.value.id]
            for name, m in sorted(handlers.items()):
                if not name.startswith("visit_") or name[6:] not in _STMT_KINDS:
                    continue
                n += 1
                deletes = None
                for path in CFG(m.node).paths():
                    if path[-1][0].kind != "RETURN":
                        continue   # a path that raises deletes nothing
                    stmts = [nd.stmt for nd, _l in path if nd.stmt is not None]
                    stmt = stmts[-1] if stmts else None
                    if isinstance(stmt, ast.Return):
                        if stmt.value is None or (isinstance(stmt.value, ast.Constant) and stmt.value.value is None):
                            deletes = stmt
                    else:
                        deletes = m.node   # falls off the end of the handler: None
                inst = "%s.%s" % (ci.qualname, name)
                if deletes is not None and not stays_on_top:
                    rep.violation(Finding(
                        "VISIT-9", inst, "statement-deleted-at-any-depth:%s" % name[6:],
                        "%s answers None for a %s: NodeTransformer descends into every block, so such a statement is removed wherever it stands - where it was the only "
                        "statement of its block (`try: import x` / `except ImportError: import y`) the block is left empty and the text rendered from the tree does not parse"
                        % (inst, name[6:]), loc(prog, deletes)))
                else:
                    rep.holds("VISIT-9", inst, loc(prog, m.node), "never answers None" if deletes is None else "the transformer does not descend")
    if n == 0:
        rep.holds("VISIT-9", "no NodeTransformer of the package has a handler for a statement kind that could delete it", "", "")


def rule_visit2(prog, rep, tier, anchor="ast_utils.RewriteAtQuery"):
    """VISIT-2: replacement happens at most once: every site that sets replaced=True is guarded by `not self.replaced`."""
    ci = prog.cls(anchor)
    n = 0
    for name, m in sorted(ci.methods.items()):
        if name == "__init__":
            continue
        for st in ast.walk(m.node):
            if isinstance(st, ast.Assign) and any(isinstance(t, ast.Attribute) and t.attr == "replaced" for t in st.targets) \
                    and isinstance(st.value, ast.Constant) and st.value.value is True:
                n += 1
                fs = [f for t, p in expr_guards(st, stop=m.node) for f in facts(t, p)]
                guarded = any(isinstance(a, ast.Attribute) and a.attr == "replaced" and p is False for a, p in fs)
                if not guarded and not name.startswith(("visit_", "generic_visit")):
                    # a private helper method: the guard may sit at every call site inside the class
                    sites = [(mm, c) for mm in ci.methods.values() for c in ast.walk(mm.node)
                             if isinstance(c, ast.Call) and isinstance(c.func, ast.Attribute) and c.func.attr == name and isinstance(c.func.value, ast.Name) and c.func.value.id == "self"]
                    if sites and all(any(isinstance(a, ast.Attribute) and a.attr == "replaced" and p is False
                                         for t, pp in expr_guards(c, stop=mm.node) for a, p in facts(t, pp)) for mm, c in sites):
                        guarded = True
                if guarded:
                    rep.holds("VISIT-2", "%s sets replaced only under `not self.replaced`" % name, loc(prog, st), "")
                else:
                    rep.violation(Finding("VISIT-2", "%s.%s" % (anchor, name), "replaced-unguarded",
                                          "%s marks/does a replacement without the `not self.replaced` guard: more than one node can be replaced" % name, loc(prog, st)))
        # returning / grafting the replacement must be accompanied by setting the flag in the same block
        for st in ast.walk(m.node):
            if isinstance(st, ast.Return) and isinstance(st.value, ast.Attribute) and st.value.attr == "replacement_node":
                blk = st._parent
                body = getattr(blk, "body", [])
                if not any(isinstance(s, ast.Assign) and any(isinstance(t, ast.Attribute) and t.attr == "replaced" for t in s.targets) for s in body):
                    rep.violation(Finding("VISIT-2", "%s.%s" % (anchor, name), "replacement-without-flag",
                                          "%s returns the replacement without recording self.replaced" % name, loc(prog, st)))
    if n == 0:
        raise AnalysisError("VISIT-2: no `self.replaced = True` site in %s" % anchor)


def rule_visit6(prog, rep, tier, anchors=("ast_utils.RewriteAtQuery", "ast_utils.find_in_ast")):
    """VISIT-6: a location is matched by exact equality with the query (or with query[:-1] for the argument-of-function
    case), never by a prefix/suffix/containment test."""
    n = 0
    nodes = []
    for a in anchors:
        if prog.has_fn(a):
            nodes.append((a, prog.fn(a).node))
        else:
            ci = prog.cls(a)
            for nm, m in ci.methods.items():
                nodes.append(("%s.%s" % (a, nm), m.node))
    def query_names(root):
        """the query parameter of a resolver function (its first parameter, unless a method) and the locals copied from it"""
        ps = [a.arg for a in root.args.args]
        if not ps or ps[0] in ("self", "cls"):
            return set()
        q = {ps[0]}
        for _ in range(3):
            for st in ast.walk(root):
                if isinstance(st, ast.Assign) and names_in(st.value) & q and not any(isinstance(x, ast.Attribute) and x.attr == "_location" for x in ast.walk(st.value)):
                    q |= {t.id for t in st.targets if isinstance(t, ast.Name)}
        return q

    for where, root in nodes:
        for c in ast.walk(root):
            if isinstance(c, ast.Compare) and any(isinstance(x, ast.Attribute) and x.attr == "_location" for x in ast.walk(c)):
                if not any(isinstance(x, ast.Name) and x.id in query_names(root) or isinstance(x, ast.Attribute) and x.attr == "search" for x in ast.walk(c)):
                    continue  # not a comparison with the query (e.g. a node's location against its own name)
                n += 1
                kind = _is_loc_eq(c, allow_parent=True, any_polarity=True)
                if kind:
                    rep.holds("VISIT-6", "%s: %s" % (where, src(c, 70)), loc(prog, c), "exact equality (%s)" % kind)
                else:
                    rep.violation(Finding("VISIT-6", where, "loc-compare:%s" % src(c, 70),
                                          "a node's _location is compared with something other than the whole query (or query[:-1]): %s; "
                                          "a shorter or longer location can then match a query it is only part of" % src(c, 80), loc(prog, c)))
            elif isinstance(c, ast.Call) and isinstance(c.func, ast.Attribute) and c.func.attr in ("startswith", "endswith") and \
                    any(isinstance(x, ast.Attribute) and x.attr == "_location" for x in ast.walk(c)):
                n += 1
                rep.violation(Finding("VISIT-6", where, "loc-compare:%s" % src(c, 70), "prefix/suffix test on a location: %s" % src(c, 80), loc(prog, c)))
    # helper functions that compare locations on behalf of the anchors
    for f in prog.all_functions():
        if f.module.name != "ast_utils" or any(f.node is r or any(f.node is x for x in ast.walk(r)) for _, r in nodes):
            continue
        for c in ast.walk(f.node):
            if isinstance(c, ast.Compare) and any(isinstance(x, ast.Name) and x.id in ("location", "_location") or isinstance(x, ast.Attribute) and x.attr == "_location" for x in ast.walk(c)) \
                    and any(isinstance(x, ast.Name) and x.id == "search" or isinstance(x, ast.Attribute) and x.attr == "search" for x in ast.walk(c)):
                n += 1
                kind = _is_loc_eq(c, allow_parent=True, any_polarity=True)
                if not kind:
                    rep.violation(Finding("VISIT-6", f.qualname, "loc-compare:%s" % src(c, 70),
                                          "location compared inexactly with the query in a helper: %s" % src(c, 80), loc(prog, c)))
    if n < 3:
        raise AnalysisError("VISIT-6: only %d location comparisons found in %s" % (n, anchors))


# ---------------------------------------------------------------------------- VISIT-3 typestate
INIT, UNMATCHED, MATCHED = "INIT", "UNMATCHED", "MATCHED"


def _visit3_fn(prog, rep, fi, search, anchor, tag=""):
    """the typestate analysis of one resolver function whose parameter `search` is the (remaining) path"""
    # cursor variables: copies of the search parameter
    cursors = {search}
    changed = True
    while changed:
        changed = False
        for n in ast.walk(fi.node):
            if isinstance(n, ast.Assign):
                tg, val = n.targets[0], n.value
                pairs = list(zip(tg.elts, val.elts)) if isinstance(tg, ast.Tuple) and isinstance(val, ast.Tuple) and len(tg.elts) == len(val.elts) else [(tg, val)]
                for t, v in pairs:
                    if isinstance(t, ast.Name) and t.id not in cursors:
                        core = v
                        if isinstance(core, ast.Call) and isinstance(core.func, ast.Name) and core.func.id in ("deepcopy", "copy", "list") and core.args:
                            core = core.args[0]
                        if isinstance(core, ast.Subscript) and isinstance(core.slice, ast.Slice):
                            core = core.value
                        if isinstance(core, ast.Name) and core.id in cursors:
                            cursors.add(t.id)
                            changed = True
    # segment variables: targets of S.pop(...) / for q in S / q = S[0]
    segs = set()
    for n in ast.walk(fi.node):
        if isinstance(n, ast.Assign) and _is_consume_expr(n.value, cursors):
            segs |= names_in(n.targets[0])
        if isinstance(n, ast.Assign):
            tg, val = n.targets[0], n.value
            pairs = list(zip(tg.elts, val.elts)) if isinstance(tg, ast.Tuple) and isinstance(val, ast.Tuple) and len(tg.elts) == len(val.elts) else [(tg, val)]
            for t, v in pairs:
                if isinstance(t, ast.Name) and isinstance(v, ast.Subscript) and isinstance(v.value, ast.Name) and v.value.id in cursors \
                        and isinstance(v.slice, ast.Constant) and v.slice.value == 0:
                    segs.add(t.id)
        if isinstance(n, ast.For) and isinstance(n.iter, ast.Name) and n.iter.id in cursors:
            segs |= names_in(n.target)
    # variables defined by a search keyed on the segment: x = next(filter(lambda ...: ... == q ...), None)
    found_vars = set()
    for n in ast.walk(fi.node):
        if isinstance(n, ast.Assign) and isinstance(n.value, ast.Call) and isinstance(n.value.func, ast.Name) and n.value.func.id == "next":
            if any(isinstance(c, ast.Compare) and names_in(c) & (segs | {search}) and any(isinstance(o, ast.Eq) for o in c.ops) for c in ast.walk(n.value)):
                found_vars |= names_in(n.targets[0])
        elif isinstance(n, ast.Assign) and isinstance(n.value, ast.Call):
            # x = helper(..., q, ...): a lookup keyed on the segment, when the resolved helper compares a node identity
            # (.arg/.name/.id/._location) with the parameter that receives q and returns None otherwise
            call = n.value
            for t in prog.resolve_expr_fn(call.func, call):
                if not isinstance(t, FunctionInfo):
                    continue
                pnames = t.params()
                keyed = [pnames[i] for i, a in enumerate(call.args) if i < len(pnames) and isinstance(a, ast.Name) and a.id in (segs | {search})]
                keyed += [k.arg for k in call.keywords if k.arg and isinstance(k.value, ast.Name) and k.value.id in (segs | {search})]
                ok = False
                for c in ast.walk(t.node):
                    if isinstance(c, ast.Compare) and len(c.ops) == 1 and isinstance(c.ops[0], ast.Eq):
                        sides = [c.left, c.comparators[0]]
                        if any(isinstance(x, ast.Attribute) and x.attr in ("arg", "name", "id", "_location") for x in sides) and any(isinstance(x, ast.Name) and x.id in keyed for x in sides):
                            ok = True
                if ok:
                    found_vars |= names_in(n.targets[0])

    def consume_in(stmt):
        roots = _header_roots(stmt)
        for r in roots:
            for x in ast.walk(r):
                if _is_consume_expr(x, cursors):
                    return True
            if isinstance(r, ast.Delete) and any(isinstance(t, ast.Subscript) and isinstance(t.value, ast.Name) and t.value.id in cursors for t in r.targets):
                return True
            if isinstance(r, ast.Assign):
                tg, val = r.targets[0], r.value
                pairs = list(zip(tg.elts, val.elts)) if isinstance(tg, ast.Tuple) and isinstance(val, ast.Tuple) and len(tg.elts) == len(val.elts) else [(tg, val)]
                for t_, v_ in pairs:
                    if isinstance(t_, ast.Name) and t_.id in cursors and isinstance(v_, ast.Subscript) \
                            and isinstance(v_.value, ast.Name) and v_.value.id in cursors and isinstance(v_.slice, ast.Slice) and v_.slice.lower is not None:
                        return True
        return False

    def is_match_edge(label):
        if label is None or label[0] in ("iter", "except"):
            return False
        for a, p in facts(label[0], label[1]):
            if isinstance(a, ast.Compare) and len(a.ops) == 1:
                op = a.ops[0]
                sides = [a.left, a.comparators[0]]
                if isinstance(op, ast.Eq) and p is True or isinstance(op, ast.NotEq) and p is False:
                    ident = [s for s in sides if isinstance(s, ast.Attribute) and s.attr in ("name", "arg", "id", "_location")]
                    key = [s for s in sides if isinstance(s, ast.Name) and s.id in (segs | {search})]
                    if ident and key:
                        return True
                if isinstance(op, ast.In) and p is True and isinstance(sides[0], ast.Name) and sides[0].id in segs:
                    return True  # the segment is one of the names a candidate node defines
                if (isinstance(op, ast.IsNot) and p is True or isinstance(op, ast.Is) and p is False) and isinstance(sides[1], ast.Constant) and sides[1].value is None \
                        and isinstance(sides[0], ast.Name) and sides[0].id in found_vars:
                    return True
        return False

    cfg = CFG(fi.node)
    consumes = sorted((n for n in cfg.nodes if n.stmt is not None and consume_in(n.stmt)), key=lambda n: (n.stmt.lineno, n.stmt.col_offset))
    cons_ord = {n: i + 1 for i, n in enumerate(consumes)}
    answers = sorted((n for n in cfg.nodes if n.kind == "return" and n.stmt.value is not None and not (isinstance(n.stmt.value, ast.Constant) and n.stmt.value.value is None)),
                     key=lambda n: n.stmt.lineno)
    ans_ord = {n: i + 1 for i, n in enumerate(answers)}
    if not consumes:
        # accepted alternative idiom: no cursor at all
        rep.holds("VISIT-3", "%s%s has no cursor (pure _location resolution)" % (tag, anchor), loc(prog, fi.node), "")
    state_in = {n: set() for n in cfg.nodes}
    state_in[cfg.entry] = {INIT}
    work = [cfg.entry]
    viol = {}
    for_cursor_loops = {n for n in cfg.nodes if n.kind == "for" and isinstance(n.stmt.iter, ast.Name) and n.stmt.iter.id in cursors}
    while work:
        n = work.pop()
        for s in list(state_in[n]):
            out = s
            if n in cons_ord:
                if s == UNMATCHED:
                    viol.setdefault(("consume", cons_ord[n]), n)
                out = UNMATCHED
            if n in ans_ord and s == UNMATCHED:
                viol.setdefault(("answer", ans_ord[n]), n)
            for m, label in cfg.succ[n]:
                o2 = out
                if n in for_cursor_loops and label == ("iter", True):
                    if out == UNMATCHED:
                        viol.setdefault(("consume-for", n.stmt.lineno), n)
                    o2 = UNMATCHED
                if is_match_edge(label):
                    o2 = MATCHED
                if o2 not in state_in[m]:
                    state_in[m].add(o2)
                    work.append(m)
    for n, k in cons_ord.items():
        if ("consume", k) in viol:
            rep.violation(Finding(
                "VISIT-3", anchor, "%sconsume#%d" % (tag, k),
                "the path segment is advanced (%s) on a path where the previously consumed segment was not matched against any node: that segment "
                "no longer influences the result, so unrelated or non-existent path components are accepted and unrelated definitions change the answer"
                % src(n.stmt, 60), loc(prog, n.stmt)))
        else:
            rep.holds("VISIT-3", "%sconsume#%d %s only after a match" % (tag, k, src(n.stmt, 50)), loc(prog, n.stmt), "")
    for n, k in ans_ord.items():
        if ("answer", k) in viol:
            rep.violation(Finding("VISIT-3", anchor, "%sanswer#%d" % (tag, k),
                                  "a node is returned (%s) on a path where the last consumed segment was never matched" % src(n.stmt, 60), loc(prog, n.stmt)))
        else:
            rep.holds("VISIT-3", "%sanswer#%d %s only when matched" % (tag, k, src(n.stmt, 50)), loc(prog, n.stmt), "")
    return {"events": len(consumes) + len(answers), "cursors": cursors, "answers": answers}


def rule_visit3(prog, rep, tier, anchor="ast_utils.find_in_ast", location_inductive=None):
    """VISIT-3: resolver cursor discipline as a typestate over the CFG of find_in_ast (and of every helper of its region
    that is handed the cursor): a path segment is consumed only when the previous one was matched, and a non-None answer
    is returned only in state MATCHED (or before any consume)."""
    fi0 = prog.fn(anchor)
    if not fi0.params():
        raise AnalysisError("VISIT-3: %s has no parameters" % anchor)
    region = set(prog.region(fi0))
    todo = [(fi0, fi0.params()[0])]
    done = set()
    total = 0
    main = None
    while todo:
        f_, sp = todo.pop(0)
        if (f_, sp) in done:
            continue
        done.add((f_, sp))
        r_ = _visit3_fn(prog, rep, f_, sp, anchor, tag="" if f_ is fi0 else "%s: " % f_.qualname)
        if f_ is fi0:
            main = r_
        total += r_["events"]
        # helpers that receive the cursor (or a tail of it) continue the resolution
        for c in ast.walk(f_.node):
            if not isinstance(c, ast.Call):
                continue
            for t in prog.resolve_expr_fn(c.func, c):
                if isinstance(t, FunctionInfo) and t in region and t.params():
                    pn = t.params()
                    for i, a in enumerate(c.args):
                        core = a.value if isinstance(a, ast.Subscript) and isinstance(a.slice, ast.Slice) else a
                        if i < len(pn) and isinstance(core, ast.Name) and core.id in r_["cursors"]:
                            todo.append((t, pn[i]))
    if total < 2:
        raise AnalysisError("VISIT-3: resolver events not recognised in %s (%d events)" % (anchor, total))
    fi, answers = fi0, main["answers"]
    # VISIT-3b: an answer decided by `_location == search` alone is sound with the (non-inductive) annotation only when the
    # candidates are the children of the last matched node (the cursor); a lookup over all descendants (ast.walk) or any
    # other candidate set can hit a node at another depth that carries the same two-element location.
    if location_inductive is not None:
        inductive = location_inductive(prog)
        cursor_vars = {"cursor"} | {t.id for st in ast.walk(fi.node) if isinstance(st, ast.Assign) for t in st.targets
                                     if isinstance(t, ast.Name) and isinstance(st.value, ast.Attribute) and st.value.attr == "body"}
        for st in ast.walk(fi.node):
            if isinstance(st, ast.Assign) and isinstance(st.targets[0], ast.Tuple) and isinstance(st.value, ast.Tuple):
                for t, v in zip(st.targets[0].elts, st.value.elts):
                    if isinstance(t, ast.Name) and isinstance(v, ast.Attribute) and v.attr == "body":
                        cursor_vars.add(t.id)
        k = 0
        for n in answers:
            gs = [f for t, p in expr_guards(n.stmt, stop=fi.node) for f in facts(t, p)]
            if not any(_is_loc_eq(a) == "exact" and p for a, p in gs):
                continue
            rv = n.stmt.value
            if isinstance(rv, ast.Name) and rv.id in fi.params() and not any(
                    isinstance(x, ast.Name) and x.id == rv.id and isinstance(x.ctx, ast.Store) for x in ast.walk(fi.node)):
                # the tree that was handed in is itself what was asked for: no candidate was chosen (`if node._location == search: return node`
                # in front of the search, on its own or as an alternative of `not search or ..`)
                continue
            k += 1
            loop = None
            p = n.stmt._parent
            while p is not None and p is not fi.node:
                if isinstance(p, (ast.For, ast.comprehension)):
                    loop = p
                    break
                p = p._parent
            over_cursor = loop is not None and isinstance(loop.iter, ast.Name) and loop.iter.id in cursor_vars
            if inductive or over_cursor:
                rep.holds("VISIT-3b", "answer by exact _location #%d" % k, loc(prog, n.stmt),
                          "the annotation is inductive" if inductive else "candidates are the children of the last matched node")
            else:
                rep.violation(Finding("VISIT-3b", anchor, "answer-by-location:%s" % (src(loop.iter, 40) if loop is not None else "no-loop"),
                                      "the answer %s is decided by `_location == search` alone over candidates %s, but the annotation is not built inductively from the "
                                      "parent location (VISIT-4): nodes at other depths carry the same two-element _location"
                                      % (src(n.stmt, 50), src(loop.iter, 40) if loop is not None else "(no loop)"), loc(prog, n.stmt)))
        for c in ast.walk(fi.node):
            if isinstance(c, ast.Call) and isinstance(c.func, (ast.Name, ast.Attribute)) and prog.ext_name(c.func, c) == "ast.walk":
                k += 1
                if inductive:
                    rep.holds("VISIT-3b", "lookup over ast.walk", loc(prog, c), "the annotation is inductive")
                elif any(isinstance(x, ast.Attribute) and x.attr == "_location" for x in ast.walk(fi.node)):
                    rep.violation(Finding("VISIT-3b", anchor, "walk-by-location",
                                          "find_in_ast looks nodes up over ast.walk(...) (all descendants) by _location while the annotation is not inductive", loc(prog, c)))


def _header_roots(stmt):
    if isinstance(stmt, (ast.If, ast.While)):
        return [stmt.test]
    if isinstance(stmt, ast.For):
        return [stmt.iter]
    if isinstance(stmt, ast.With):
        return [i.context_expr for i in stmt.items]
    if isinstance(stmt, ast.Try):
        return []
    return [stmt]


def _is_consume_expr(x, cursors):
    return isinstance(x, ast.Call) and isinstance(x.func, ast.Attribute) and x.func.attr in ("pop", "popleft") \
        and isinstance(x.func.value, ast.Name) and x.func.value.id in cursors


# ---------------------------------------------------------------------------- VISIT-4 inductive location
def location_assignments(prog, anchor="ast_utils.annotate_ancestry"):
    fi = prog.fn(anchor)
    out = []
    for f_ in prog.region(fi):
        for st in ast.walk(f_.node):
            if isinstance(st, ast.Assign) and enclosing_fn(st) in (f_, fi) or isinstance(st, ast.Assign) and f_ is fi:
                for t in st.targets:
                    if isinstance(t, ast.Attribute) and t.attr == "_location" and (st, t) not in out:
                        out.append((st, t))
    return fi, out


def _tuple_positions(fn_node, derived):
    """{container name: set of tuple positions that carry a location-derived value} for containers that are filled with
    tuple displays (initial value, .append/.appendleft/.extend arguments)"""
    pos = {}

    def is_derived(e):
        return any(isinstance(x, ast.Attribute) and x.attr == "_location" and isinstance(x.ctx, ast.Load) for x in ast.walk(e)) or bool(names_in(e) & derived)

    def feed(name, expr):
        for tup in ast.walk(expr):
            if isinstance(tup, ast.Tuple) and tup.elts and not any(isinstance(getattr(tup, "_parent", None), k) for k in (ast.Subscript,)):
                for i, e in enumerate(tup.elts):
                    if not isinstance(e, ast.Tuple) and is_derived(e):
                        pos.setdefault(name, set()).add((len(tup.elts), i))
    for st in ast.walk(fn_node):
        if isinstance(st, ast.Assign) and len(st.targets) == 1 and isinstance(st.targets[0], ast.Name):
            feed(st.targets[0].id, st.value)
        elif isinstance(st, ast.Call) and isinstance(st.func, ast.Attribute) and st.func.attr in ("append", "appendleft", "extend", "insert") and isinstance(st.func.value, ast.Name):
            for a in st.args:
                feed(st.func.value.id, a)
    return pos


def _loc_derived_names(fn_node):
    """names whose value is derived from a `._location` read (flow-insensitive).  Tuple unpacking is position-sensitive
    when the source is a tuple display or a container known to hold tuple displays (work-list idiom)."""
    d = set()
    changed = True
    while changed:
        changed = False
        tp = _tuple_positions(fn_node, d)

        def is_derived(e):
            return any(isinstance(x, ast.Attribute) and x.attr == "_location" and isinstance(x.ctx, ast.Load) for x in ast.walk(e)) or bool(names_in(e) & d)

        def bind(target, value):
            nonlocal changed
            if isinstance(target, ast.Name):
                if target.id not in d and is_derived(value):
                    d.add(target.id)
                    changed = True
            elif isinstance(target, (ast.Tuple, ast.List)):
                if isinstance(value, (ast.Tuple, ast.List)) and len(value.elts) == len(target.elts):
                    for t_, v_ in zip(target.elts, value.elts):
                        bind(t_, v_)
                    return
                # x, y = cont.popleft() / cont.pop() / cont[i] / iteration element
                cont = None
                v = value
                if isinstance(v, ast.Call) and isinstance(v.func, ast.Attribute) and v.func.attr in ("pop", "popleft") and isinstance(v.func.value, ast.Name):
                    cont = v.func.value.id
                elif isinstance(v, ast.Subscript) and isinstance(v.value, ast.Name):
                    cont = v.value.id
                elif isinstance(v, ast.Name):
                    cont = v.id
                if cont is not None and cont in tp:
                    for i, t_ in enumerate(target.elts):
                        if isinstance(t_, ast.Name) and t_.id not in d and (len(target.elts), i) in tp[cont]:
                            d.add(t_.id)
                            changed = True
                    return
                if is_derived(value):
                    for t_ in target.elts:
                        bind(t_, value)
        for st in ast.walk(fn_node):
            if isinstance(st, ast.Assign):
                for t in st.targets:
                    bind(t, st.value)
            elif isinstance(st, (ast.For, ast.comprehension)):
                it = st.iter
                if isinstance(st.target, (ast.Tuple, ast.List)) and isinstance(it, ast.Name) and it.id in tp:
                    bind(st.target, it)
                elif isinstance(st.target, ast.Name):
                    bind(st.target, it)
    return d


DEFINITION_KINDS = ("ClassDef", "FunctionDef", "AsyncFunctionDef")


def _guard_classes(st, base, fn_node):
    """(class names, hasattr name) of the innermost positive isinstance / hasattr condition on the receiver of a location"""
    for t, pol in expr_guards(st, stop=fn_node):
        for a, p in facts(t, pol):
            if not p or not isinstance(a, ast.Call) or not isinstance(a.func, ast.Name) or len(a.args) != 2:
                continue
            if not (isinstance(a.args[0], ast.Name) and isinstance(base, ast.Name) and a.args[0].id == base.id):
                continue
            if a.func.id == "isinstance":
                k = a.args[1]
                names = [k.id] if isinstance(k, ast.Name) else sorted(x.id if isinstance(x, ast.Name) else getattr(x, "attr", "?") for x in getattr(k, "elts", []))
                return names, None
            if a.func.id == "hasattr" and isinstance(a.args[1], ast.Constant):
                return None, a.args[1].value
    return None, None


def _loc_kind(st, base, fn_node, folder=None):
    """what kind of node receives the location, as a semantic class: named definitions (classes / functions, however the
    test is spelt), plain assignments, annotated assignments, constants, arguments"""
    names, attr = _guard_classes(st, base, fn_node)
    if attr == "name":
        return "named-definition"
    if names:
        resolved = set(names)
        if folder is not None:
            for nme in names:
                v = folder.fold(ast.Name(id=nme, ctx=ast.Load()), {}, st)
                if isinstance(v, (tuple, list)):
                    resolved |= {getattr(x, "__name__", str(x)) for x in v}
        if resolved & set(DEFINITION_KINDS):
            return "named-definition"
        if "AnnAssign" in resolved:
            return "annotated-assignment"
        if "Assign" in resolved:
            return "assignment"
        if resolved & {"Constant", "Str", "Num"}:
            return "constant"
        if "arg" in resolved:
            return "argument"
        return "isinstance:" + "|".join(sorted(resolved))
    if attr:
        return "hasattr:%s" % attr
    return "unconditional"


def visit4_results(prog, anchor="ast_utils.annotate_ancestry"):
    fi, assigns = location_assignments(prog, anchor)
    if not assigns:
        raise AnalysisError("VISIT-4: no `_location` assignment in %s" % anchor)
    root_params = set(fi.params())
    res = []
    derived_of = {}
    for st, t in assigns:
        f_ = enclosing_fn(st)
        # the function whose scope the names of this statement live in (closures read the enclosing function's names)
        scopes = [f_.node] if f_ is not None else []
        if fi.node not in scopes and any(st is x for x in ast.walk(fi.node)):
            scopes.append(fi.node)
        derived = set()
        for sc in scopes:
            if id(sc) not in derived_of:
                derived_of[id(sc)] = _loc_derived_names(sc)
            derived |= derived_of[id(sc)]
        base = t.value
        is_root = isinstance(base, ast.Name) and base.id in root_params and f_ is fi
        rhs = st.value
        inductive = any(isinstance(x, ast.Attribute) and x.attr == "_location" and isinstance(x.ctx, ast.Load) for x in ast.walk(rhs)) or bool(names_in(rhs) & derived)
        res.append((st, t, is_root, inductive))
    return fi, res


def location_is_inductive(prog):
    _, res = visit4_results(prog)
    return all(is_root or ind for _, _, is_root, ind in res)


def rule_visit4(prog, rep, tier, anchor="ast_utils.annotate_ancestry"):
    """VISIT-4: every `_location` a node receives is built from its parent's `_location` (qualified path by induction)."""
    fi, res = visit4_results(prog, anchor)
    for st, t, is_root, ind in res:
        inst = "%s = %s" % (src(t, 40), src(st.value, 60))
        if is_root:
            rep.holds("VISIT-4", inst, loc(prog, st), "root of the annotated tree")
        elif ind:
            rep.holds("VISIT-4", inst, loc(prog, st), "data-dependent on a _location")
        else:
            f_ = enclosing_fn(st)
            rep.violation(Finding(
                "VISIT-4", anchor, "loc:%s" % _loc_kind(st, t.value, f_.node if f_ is not None else fi.node),
                "the location %s is built from the parent's simple name only, not from the parent's location: at nesting depth 3 "
                "(class A: class B: def m) the method is annotated ['B','m'] and is indistinguishable from a top-level B.m" % inst, loc(prog, st)))
    # VISIT-4c: when the named definitions that receive a location are picked by an explicit class test, the test names
    # every definition kind (an `async def` is addressable like a `def`)
    from sa.consteval import Folder
    folder = Folder(prog)
    for st, t, is_root, ind in res:
        f_ = enclosing_fn(st)
        names, attr = _guard_classes(st, t.value, f_.node if f_ is not None else fi.node)
        if not names:
            continue
        resolved = set(names)
        for nme in names:
            v = folder.fold(ast.Name(id=nme, ctx=ast.Load()), {}, st)
            if isinstance(v, (tuple, list)):
                resolved |= {getattr(x, "__name__", str(x)) for x in v}
        got = resolved & set(DEFINITION_KINDS)
        if got and got != set(DEFINITION_KINDS):
            rep.violation(Finding("VISIT-4", anchor, "definition-kinds-without-location:%s" % ",".join(sorted(set(DEFINITION_KINDS) - got)),
                                  "named definitions receive their location under isinstance(.., (%s)), which leaves out %s: such a definition exists at its dotted "
                                  "location but resolves to nothing and is never replaced" % (", ".join(sorted(got)), ", ".join(sorted(set(DEFINITION_KINDS) - got))), loc(prog, st)))
        elif got:
            rep.holds("VISIT-4", "definition kinds that receive a location: %s" % ", ".join(sorted(got)), loc(prog, st), "all three")
    # (prefix clause) the scope a node gives its children: `[<node>.name] if <test> else []`.  Every kind of definition that can hold
    # children is a scope - a class test there must admit all of them, or what is nested in the left-out kind gets the address of its
    # module-level namesake.
    for f_ in prog.region(fi):
        for ie in ast.walk(f_.node):
            if not (isinstance(ie, ast.IfExp) and isinstance(ie.body, ast.List) and len(ie.body.elts) == 1 and isinstance(ie.body.elts[0], ast.Attribute)
                    and ie.body.elts[0].attr == "name" and isinstance(ie.orelse, ast.List) and not ie.orelse.elts):
                continue
            tests = [c for c in ast.walk(ie.test) if isinstance(c, ast.Call) and isinstance(c.func, ast.Name) and c.func.id == "isinstance" and len(c.args) == 2]
            if not tests:
                rep.holds("VISIT-4", "scope prefix %s" % src(ie, 60), loc(prog, ie), "given by whatever has a name")
                continue
            resolved = set()
            for c in tests:
                for x in ast.walk(c.args[1]):
                    if isinstance(x, ast.Name):
                        resolved.add(x.id)
                        v = folder.fold(x, {}, ie)
                        if isinstance(v, (tuple, list)):
                            resolved |= {getattr(y, "__name__", str(y)) for y in v}
                    elif isinstance(x, ast.Attribute):
                        resolved.add(x.attr)
            missing = set(DEFINITION_KINDS) - resolved
            if resolved & set(DEFINITION_KINDS) and missing:
                rep.violation(Finding("VISIT-4", anchor, "definition-kinds-without-scope:%s" % ",".join(sorted(missing)),
                                      "%s makes only %s a scope for their children: what is defined inside a %s gets the location of a module-level definition of the "
                                      "same name, and is found / replaced in its stead" % (src(ie, 70), ", ".join(sorted(resolved & set(DEFINITION_KINDS))), ", ".join(sorted(missing))),
                                      loc(prog, ie)))
            else:
                rep.holds("VISIT-4", "scope prefix %s" % src(ie, 60), loc(prog, ie), "every kind of definition is a scope")
    if len(res) < 3:
        raise AnalysisError("VISIT-4: only %d _location assignments found" % len(res))


# ---------------------------------------------------------------------------- VISIT-5 renamer
def rule_visit5(prog, rep, tier, anchor="emitter_utils.RewriteName", user="emit.class_"):
    """VISIT-5: the parameter -> self.<parameter> renamer (a) rewrites only names in its set, (b) handles every
    scope-introducing node kind, and (c) is given exactly the parameter names (set computed before the return entry is
    folded into the parameters)."""
    ci = prog.cls(anchor)
    vn = ci.methods.get("visit_Name")
    if vn is None:
        raise AnalysisError("VISIT-5: %s.visit_Name not found" % anchor)
    # (a) every return of visit_Name that is not a delegation to generic_visit (i.e. a rewrite) is guarded by membership
    #     of node.id in the rename set (`id in S` true, or `id not in S` false, possibly next to the empty-set disjunct)
    def _membership_ok(guards):
        # the guards are decomposed into atomic facts (predicate helpers such as `self._is_param(node.id)` are seen
        # through, `not in` is normalised): some fact that holds on the way to the rewrite contains `<id> in <rename set>`
        for t0, pol0 in guards:
            for t, pol in facts(t0, pol0):
                for c in ast.walk(t):
                    if isinstance(c, ast.Compare) and len(c.ops) == 1 and isinstance(c.left, ast.Attribute) and c.left.attr == "id" \
                            and isinstance(c.comparators[0], ast.Attribute) and c.comparators[0].attr == "node_ids":
                        if isinstance(c.ops[0], ast.In) and pol is True:
                            return True
                        if isinstance(c.ops[0], ast.NotIn) and pol is False:
                            return True
        return False

    rewrites = []
    for r in ast.walk(vn.node):
        if not isinstance(r, ast.Return) or r.value is None:
            continue
        alts = [r.value.body, r.value.orelse] if isinstance(r.value, ast.IfExp) else [r.value]
        for a in alts:
            is_delegate = isinstance(a, ast.Call) and isinstance(a.func, ast.Attribute) and a.func.attr == "generic_visit"
            is_same = isinstance(a, ast.Name) and a.id in vn.params()
            if not (is_delegate or is_same):
                rewrites.append(a)
    if not rewrites:
        raise AnalysisError("VISIT-5: visit_Name of %s never rewrites" % anchor)
    ok_a = all(_membership_ok(expr_guards(a, stop=vn.node)) for a in rewrites)
    if ok_a:
        rep.holds("VISIT-5", "visit_Name rewrites only under `node.id in self.node_ids` (%d rewriting return(s))" % len(rewrites), loc(prog, vn.node), "")
    else:
        rep.violation(Finding("VISIT-5", anchor, "rename-without-membership",
                              "visit_Name builds self.<name> without testing membership of the name in the rename set: every name is touched", loc(prog, vn.node)))
    # (b) scope handlers
    handled = set(ci.methods)
    for st in ci.node.body:
        # visit_X = visit_Y = _handler: class-level aliases of a method
        if isinstance(st, ast.Assign) and isinstance(st.value, ast.Name) and st.value.id in ci.methods:
            handled |= {t.id for t in st.targets if isinstance(t, ast.Name)}
    missing = [k for k in SCOPE_NODES if "visit_" + k not in handled]
    uses_symtable = any(isinstance(n, ast.Name) and n.id == "symtable" for m in ci.methods.values() for n in ast.walk(m.node))
    if missing and not uses_symtable:
        rep.violation(Finding(
            "VISIT-5", anchor, "missing-scope-handlers",
            "the renamer has no handler for scope-introducing nodes %s: a name rebound in an inner scope (nested def parameter, lambda parameter, "
            "comprehension variable) that equals a parameter name is rewritten to self.<name> too" % ", ".join(missing), loc(prog, ci.node)))
    else:
        rep.holds("VISIT-5", "scope-introducing node kinds handled", loc(prog, ci.node), "")
    # (c) provenance of the rename set in the class emitter
    uf = prog.fn(user)
    sites = [c for c in ast.walk(uf.node) if isinstance(c, ast.Call) and any(t is ci for t in prog.resolve_expr_fn(c.func, c))]
    if not sites:
        raise AnalysisError("VISIT-5: %s no longer instantiates %s" % (user, anchor))
    irp = uf.params()[0]
    cfg = CFG(uf.node)
    for c in sites:
        arg = c.args[0] if c.args else None
        if not isinstance(arg, ast.Name):
            rep.ob("VISIT-5", "rename set %s" % (src(arg) if arg is not None else "?"), "unresolved", loc(prog, c), "not a local name")
            continue
        defs = [st for st in ast.walk(uf.node) if isinstance(st, ast.Assign) and any(isinstance(t, ast.Name) and t.id == arg.id for t in st.targets)]
        if len(defs) != 1:
            rep.ob("VISIT-5", "rename set %s" % arg.id, "unresolved", loc(prog, c), "%d definitions" % len(defs))
            continue
        d = defs[0]
        from_params = any(isinstance(x, ast.Subscript) and isinstance(x.slice, ast.Constant) and x.slice.value == "params" and isinstance(x.value, ast.Name) and x.value.id == irp
                          for x in ast.walk(d.value))
        # no statement that can execute before d rebinds the IR or mutates its params
        dn = cfg.node_of(d)
        early = []
        if dn is not None:
            for n in cfg.nodes:
                if n.stmt is None or n is dn or dn not in cfg.reachable_from(n):
                    continue
                for r in _header_roots(n.stmt):
                    for x in ast.walk(r):
                        if isinstance(x, ast.Assign) and any(isinstance(t, ast.Name) and t.id == irp for t in x.targets):
                            early.append(x)
                        if isinstance(x, ast.Call) and isinstance(x.func, ast.Attribute) and x.func.attr in ("update", "setdefault", "__setitem__", "pop", "move_to_end") \
                                and any(isinstance(y, ast.Constant) and y.value == "params" for y in ast.walk(x.func.value)):
                            early.append(x)
                        if isinstance(x, ast.Assign) and any(isinstance(t, ast.Subscript) and any(isinstance(y, ast.Constant) and y.value == "params" for y in ast.walk(t.value)) for t in x.targets):
                            early.append(x)
        if from_params and not early:
            rep.holds("VISIT-5", "rename set %s = the IR's parameter names as given" % arg.id, loc(prog, d), "defined before any fold of the return entry into params")
        else:
            rep.violation(Finding(
                "VISIT-5", user, "rename-set-provenance:%s" % arg.id,
                "the rename set %s is %s: names that are not parameters (e.g. the reserved return_type) are rewritten to self.<name>"
                % (arg.id, "not taken from the IR's params" if not from_params else "computed after %s changed the params mapping" % src(early[0], 50)), loc(prog, d)))


def rule_visit4b(prog, rep, tier, anchor="ast_utils.annotate_ancestry", attrs=("_location", "_idx")):
    """VISIT-4b (who-may-write): only the annotator (annotate_ancestry and the helpers it is split into) assigns the
    location attributes; a node that receives a `_location` anywhere else (e.g. a graft inheriting the location of the
    node it replaced) makes a location resolve to a node whose qualified path is something else."""
    owner = {id(f.node) for f in prog.region(prog.fn(anchor))}
    # nested defs of the owner belong to it
    n = 0
    for m in prog.modules.values():
        for st in ast.walk(m.tree):
            tgts = st.targets if isinstance(st, ast.Assign) else ([st.target] if isinstance(st, (ast.AugAssign, ast.AnnAssign)) else [])
            for t in tgts:
                if isinstance(t, ast.Attribute) and t.attr in attrs:
                    n += 1
                    fn = enclosing_fn(st)
                    inside = False
                    f2 = fn
                    while f2 is not None:
                        if id(f2.node) in owner:
                            inside = True
                        f2 = f2.parent_fn
                    where = fn.qualname if fn else m.name
                    if inside:
                        rep.holds("VISIT-4b", "%s assigns %s" % (where, src(t, 40)), loc(prog, st), "inside the annotator")
                    else:
                        rep.violation(Finding("VISIT-4b", where, "location-written-outside-annotator:%s" % src(t, 50),
                                              "%s assigns %s outside annotate_ancestry: the node then answers to a location that is not its qualified path" % (where, src(st, 70)), loc(prog, st)))
            if isinstance(st, ast.Call) and isinstance(st.func, ast.Name) and st.func.id == "setattr" and len(st.args) >= 2 and isinstance(st.args[1], ast.Constant) and st.args[1].value in attrs:
                fn = enclosing_fn(st)
                if fn is None or id(fn.node) not in owner:
                    n += 1
                    rep.violation(Finding("VISIT-4b", fn.qualname if fn else m.name, "location-written-outside-annotator:setattr",
                                          "setattr(..., %r, ...) outside annotate_ancestry" % st.args[1].value, loc(prog, st)))
    if n < 3:
        raise AnalysisError("VISIT-4b: only %d assignments of location attributes found" % n)
