"""
NULL family: definite None dereference (DESIGN.md section 3 "NULL").
NULL-1: a repository function with an explicit None-returning path whose result is dereferenced unguarded.
NULL-2: a literal None stored in element i of a local list/tuple reaches, through callees that pass element i along, a
        callee that dereferences it unconditionally.
"""
import ast

from sa.cfg import CFG, expr_guards, facts
from sa.model import AnalysisError, Finding, FunctionInfo, enclosing_fn, loc, names_in, src


def _returns_none_explicitly(prog, fi, memo, depth=0):
    if fi.qualname in memo:
        return memo[fi.qualname]
    memo[fi.qualname] = None
    why = None
    rets = [r for r in ast.walk(fi.node) if isinstance(r, ast.Return) and enclosing_fn(r) is fi]
    valued = [r for r in rets if r.value is not None and not (isinstance(r.value, ast.Constant) and r.value.value is None)]
    if not valued:
        memo[fi.qualname] = None  # a procedure
        return None
    for r in rets:
        v = r.value
        if v is None or (isinstance(v, ast.Constant) and v.value is None):
            why = "`return None` at line %d" % r.lineno
        elif isinstance(v, ast.Name):
            for t, pol in expr_guards(r, stop=fi.node):
                for a, p in facts(t, pol):
                    if isinstance(a, ast.Compare) and len(a.ops) == 1 and isinstance(a.left, ast.Name) and a.left.id == v.id and isinstance(a.comparators[0], ast.Constant) \
                            and a.comparators[0].value is None and ((isinstance(a.ops[0], ast.Is) and p) or (isinstance(a.ops[0], ast.IsNot) and not p)):
                        why = "`return %s` under `%s is None` at line %d" % (v.id, v.id, r.lineno)
        elif isinstance(v, ast.IfExp) and any(isinstance(x, ast.Constant) and x.value is None for x in (v.body, v.orelse)):
            why = "conditional expression with a None arm at line %d" % r.lineno
        elif isinstance(v, ast.Call) and depth < 3:
            for t in prog.resolve_expr_fn(v.func, v):
                if isinstance(t, FunctionInfo) and t is not fi:
                    w = _returns_none_explicitly(prog, t, memo, depth + 1)
                    if w:
                        why = "returns %s(...), which %s" % (t.qualname, w)
    memo[fi.qualname] = why
    return why


def rule_null1(prog, rep, tier):
    memo = {}
    n = 0
    for call in prog.all_calls():
        tg = [t for t in prog.resolve_expr_fn(call.func, call) if isinstance(t, FunctionInfo)]
        if len(tg) != 1:
            continue
        why = _returns_none_explicitly(prog, tg[0], memo)
        if not why:
            continue
        n += 1
        p = call._parent
        fn = enclosing_fn(call)
        where = fn.qualname if fn else prog.module_of(call).name
        deref = None
        if isinstance(p, ast.Attribute) and p.value is call:
            deref = ".%s" % p.attr
        elif isinstance(p, ast.Subscript) and p.value is call:
            deref = "[...]"
        elif isinstance(p, ast.Starred):
            deref = "*unpack"
        if deref:
            rep.violation(Finding(
                "NULL-1", where, "deref:%s(...)%s" % (tg[0].name, deref),
                "%s %s, and its result is dereferenced unguarded here (%s%s); elsewhere the same result is None-filtered" % (tg[0].qualname, why, src(call, 50), deref), loc(prog, call)))
        else:
            rep.holds("NULL-1", "%s: result of %s not dereferenced directly" % (where, tg[0].qualname), loc(prog, call), "None-filtered, defaulted with `or`, tested, or passed on")
    if n < 3:
        raise AnalysisError("NULL-1: only %d call sites of None-returning repository functions found" % n)


# ---------------------------------------------------------------------------- NULL-2
def _elt0_names(fi):
    """names bound to element 0 of the first parameter"""
    if not fi.params():
        return set()
    p = fi.params()[0]
    out = set()
    for st in ast.walk(fi.node):
        if isinstance(st, ast.Assign) and isinstance(st.targets[0], ast.Tuple) and st.targets[0].elts and isinstance(st.targets[0].elts[0], ast.Name) \
                and isinstance(st.value, ast.Name) and st.value.id == p:
            out.add(st.targets[0].elts[0].id)
    return out


def _passes_elt0(fi):
    """fi returns a tuple whose element 0 is element 0 of its first parameter, on every return"""
    names = _elt0_names(fi)
    rets = [r for r in ast.walk(fi.node) if isinstance(r, ast.Return) and enclosing_fn(r) is fi]
    return bool(rets) and bool(names) and all(isinstance(r.value, ast.Tuple) and r.value.elts and isinstance(r.value.elts[0], ast.Name) and r.value.elts[0].id in names for r in rets)


def _derefs_elt0(fi):
    """fi dereferences element 0 of its first parameter before any test of it (first use is an attribute access)"""
    names = _elt0_names(fi)
    if not names:
        return None
    uses = sorted((n for n in ast.walk(fi.node) if isinstance(n, ast.Name) and n.id in names and isinstance(n.ctx, ast.Load)), key=lambda n: (n.lineno, n.col_offset))
    if not uses:
        return None
    u = uses[0]
    if isinstance(u._parent, ast.Attribute) and u._parent.value is u:
        gs = expr_guards(u, stop=fi.node)
        if not any(names_in(t) & names for t, _ in gs):
            return u._parent
    return None


def rule_null2(prog, rep, tier, scope=("docstring_parsers",)):
    n = 0
    for fi in prog.all_functions():
        if fi.module.name not in scope:
            continue
        # locals assigned a 2-element display whose element 0 is the literal None
        none_defs = {}
        for st in ast.walk(fi.node):
            if isinstance(st, ast.Assign) and isinstance(st.targets[0], ast.Name) and isinstance(st.value, (ast.List, ast.Tuple)) and st.value.elts \
                    and isinstance(st.value.elts[0], ast.Constant) and st.value.elts[0].value is None:
                none_defs.setdefault(st.targets[0].id, []).append(st)
        if not none_defs:
            continue
        cfg = CFG(fi.node)
        for var, defs in none_defs.items():
            # uses: var passed whole as first argument to a chain of calls
            for c in ast.walk(fi.node):
                if not (isinstance(c, ast.Call) and c.args and isinstance(c.args[0], ast.Name) and c.args[0].id == var):
                    continue
                tg = [t for t in prog.resolve_expr_fn(c.func, c) if isinstance(t, FunctionInfo)]
                if len(tg) != 1:
                    continue
                # follow the result outwards through calls taking it as first argument
                chain = [tg[0]]
                cur = c
                deref = _derefs_elt0(tg[0])
                while deref is None and _passes_elt0(chain[-1]):
                    par = cur._parent
                    if isinstance(par, ast.Call) and par.args and par.args[0] is cur:
                        t2 = [t for t in prog.resolve_expr_fn(par.func, par) if isinstance(t, FunctionInfo)]
                        if len(t2) != 1:
                            break
                        chain.append(t2[0])
                        cur = par
                        deref = _derefs_elt0(t2[0])
                    else:
                        break
                if deref is None:
                    continue
                n += 1
                # is the use guarded by a test on var[0]?
                st = c
                while not isinstance(st, ast.stmt):
                    st = st._parent
                guarded = False
                for t, pol in expr_guards(c, stop=fi.node):
                    for a, p in facts(t, pol):
                        subs = [x for x in ast.walk(a) if isinstance(x, ast.Subscript) and isinstance(x.value, ast.Name) and x.value.id == var and isinstance(x.slice, ast.Constant) and x.slice.value == 0]
                        if subs:
                            if isinstance(a, ast.Compare) and isinstance(a.comparators[0], ast.Constant) and a.comparators[0].value is None:
                                if (isinstance(a.ops[0], ast.IsNot) and p) or (isinstance(a.ops[0], ast.Is) and not p):
                                    guarded = True
                            elif isinstance(a, ast.Subscript) and p:
                                guarded = True
                # does a None-literal definition reach the use without a killing redefinition?
                reach = False
                un = cfg.node_of(st)
                if un is not None:
                    for d in defs:
                        dn = cfg.node_of(d)
                        if dn is None:
                            continue
                        kills = {cfg.node_of(s) for s in ast.walk(fi.node) if isinstance(s, ast.Assign) and s is not d and var in names_in(s.targets[0]) and cfg.node_of(s) is not None
                                 and not (isinstance(s.value, (ast.List, ast.Tuple)) and s.value.elts and isinstance(s.value.elts[0], ast.Constant) and s.value.elts[0].value is None)}
                        seen, todo = set(), [m for m, _ in cfg.succ[dn]]
                        while todo:
                            x = todo.pop()
                            if x in seen:
                                continue
                            seen.add(x)
                            if x is un:
                                reach = True
                                break
                            if x in kills:
                                continue
                            todo.extend(m for m, _ in cfg.succ[x])
                inst = "%s: %s -> %s derefs element 0 (%s)" % (fi.qualname, var, " -> ".join(t.qualname for t in chain), src(deref, 40))
                if reach and not guarded:
                    rep.violation(Finding(
                        "NULL-2", fi.qualname, "none-name:%s->%s" % (var, chain[-1].name),
                        "`%s = %s` stores a literal None as the parameter name; it reaches %s without a test of %s[0], and %s dereferences it unconditionally "
                        "(%s): a docstring that documents only a return value raises AttributeError" % (var, src(defs[0].value, 30), src(c, 50), var, chain[-1].qualname, src(deref, 40)),
                        loc(prog, c)))
                else:
                    rep.holds("NULL-2", inst, loc(prog, c), "guarded by a test of %s[0]" % var if guarded else "no None-literal definition reaches the use")
    if n == 0:
        raise AnalysisError("NULL-2: no flow of a [None, ...] pending-parameter slot into the name post-processing found")
