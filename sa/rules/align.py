"""
ALIGN family: two sequences zipped by position must have provably equal length and be element-wise aligned.
A linear-form algebra over symbolic lengths, evaluated path-sensitively over straight-line code with `if` forks.
"""
import ast

from sa.model import AnalysisError, Finding, FunctionInfo, dump, digest, enclosing_fn, loc, src


# ---------------------------------------------------------------------------- linear forms
def lf_const(n):
    return {"1": n} if n else {}


def lf_sym(s):
    return {s: 1}


def lf_add(a, b, sign=1):
    out = dict(a)
    for k, v in b.items():
        out[k] = out.get(k, 0) + sign * v
        if out[k] == 0:
            del out[k]
    return out


def lf_str(a):
    if not a:
        return "0"
    parts = []
    for k, v in sorted(a.items()):
        parts.append(str(v) if k == "1" else ("%s" % k if v == 1 else "%d*%s" % (v, k)))
    return " + ".join(parts)


class State(object):
    def __init__(self, lens=None, vals=None, attrs=None, assume=None):
        self.lens = dict(lens or {})  # local name -> LF of its length
        self.vals = dict(vals or {})  # local name -> LF of its integer value
        self.attrs = dict(attrs or {})  # dump(getattr(obj, name)) -> LF of its length
        self.assume = list(assume or [])  # LFs assumed zero
        self.exprs = {}

    def copy(self):
        s = State(self.lens, self.vals, self.attrs, self.assume)
        s.exprs = dict(self.exprs)
        return s


def _call_name(c):
    return c.func.id if isinstance(c.func, ast.Name) else (c.func.attr if isinstance(c.func, ast.Attribute) else None)


_HELPER_LEN = None  # set by the rules: (call, state) -> LF of the length of what a package helper returns, or None


def helper_len_for(prog):
    """length summaries of package functions: when every `return` of the helper has the same symbolic length in terms of
    the lengths of its parameters, a call has that length with the arguments substituted"""
    memo = {}

    def summ(t):
        if id(t) in memo:
            return memo[id(t)]
        memo[id(t)] = None
        pn = t.params()
        st0 = State(lens={p_: lf_sym("len(@%s)" % p_) for p_ in pn})
        rets = [r.value for r in ast.walk(t.node) if isinstance(r, ast.Return) and r.value is not None and enclosing_fn(r) is t]
        # locals assigned once before the returns (straight-line helpers)
        ends = (sym_exec([s_ for s_ in t.node.body if not isinstance(s_, ast.Return)], st0) or [st0]) if rets else []
        if ends and len(ends) <= 16 and rets:
            ls = [length(r, e_) for r in rets for e_ in ends]
            if all(x == ls[0] for x in ls) and ls[0] and all(k == "1" or (k.startswith("len(@") and k[5:-1] in pn) for k in ls[0]):
                memo[id(t)] = ls[0]
        return memo[id(t)]

    def helper_len(call, st):
        if not isinstance(call.func, (ast.Name, ast.Attribute)):
            return None
        tg = [t for t in prog.resolve_expr_fn(call.func, call) if isinstance(t, FunctionInfo) and isinstance(t.node, ast.FunctionDef)]
        if len(tg) != 1:
            return None
        lf = summ(tg[0])
        if lf is None:
            return None
        pn = tg[0].params()
        bind = dict(zip(pn, call.args))
        bind.update({k.arg: k.value for k in call.keywords if k.arg})
        out = {}
        for k, v in lf.items():
            if k == "1":
                out = lf_add(out, {"1": v})
            else:
                a = bind.get(k[5:-1])
                if a is None or isinstance(a, ast.Starred):
                    return None
                la = length(a, st)
                out = lf_add(out, {kk: vv * v for kk, vv in la.items()})
        return out
    return helper_len


def length(e, st):
    """LF for len(e)."""
    if isinstance(e, (ast.List, ast.Tuple)):
        out = {}
        n = 0
        for x in e.elts:
            if isinstance(x, ast.Starred):
                out = lf_add(out, length(x.value, st))
            else:
                n += 1
        return lf_add(out, lf_const(n))
    if isinstance(e, ast.Name):
        if e.id in st.lens:
            return st.lens[e.id]
        return lf_sym("len(%s)" % e.id)
    if isinstance(e, ast.BinOp) and isinstance(e.op, ast.Add):
        return lf_add(length(e.left, st), length(e.right, st))
    if isinstance(e, ast.BinOp) and isinstance(e.op, ast.Mult):
        for seq, k in ((e.left, e.right), (e.right, e.left)):
            if isinstance(seq, (ast.List, ast.Tuple)) and len(seq.elts) == 1:
                return value(k, st)
    if isinstance(e, ast.Call):
        nm = _call_name(e)
        if nm in ("list", "tuple", "iter", "reversed", "sorted", "deepcopy", "copy") and len(e.args) == 1:
            return length(e.args[0], st)
        if nm == "map" and len(e.args) == 2:
            return length(e.args[1], st)
        if nm in ("map", "zip") and len(e.args) >= 2:
            # parallel iteration stops at the shortest: a known length only when all lengths agree
            ls = [length(a, st) for a in (e.args[1:] if nm == "map" else e.args)]
            if all(x == ls[0] for x in ls):
                return ls[0]
        if _HELPER_LEN is not None:
            hl = _HELPER_LEN(e, st)
            if hl is not None:
                return hl
        if nm == "filter" and len(e.args) == 2:
            return lf_sym("flt<%s>" % digest(e))
        if nm == "enumerate" and e.args:
            return length(e.args[0], st)
        if nm == "islice" and len(e.args) == 2 and isinstance(e.args[0], ast.Call) and _call_name(e.args[0]) in ("cycle", "repeat", "count"):
            return value(e.args[1], st)
        if nm == "repeat" and len(e.args) == 2:
            return value(e.args[1], st)
        if nm == "getattr" and len(e.args) == 2:
            k = dump(e)
            if k in st.attrs:
                return st.attrs[k]
            return lf_sym("len(%s)" % src(e, 60))
        if nm in ("items", "keys", "values") and isinstance(e.func, ast.Attribute):
            return length(e.func.value, st)
    if isinstance(e, (ast.ListComp, ast.GeneratorExp)) and len(e.generators) == 1 and not e.generators[0].ifs:
        return length(e.generators[0].iter, st)
    if isinstance(e, (ast.ListComp, ast.GeneratorExp)) and len(e.generators) == 1 and e.generators[0].ifs:
        # a filtered image: some elements can be dropped, so it is *known* not to be aligned with its source in general
        return lf_sym("flt<%s>" % digest(e))
    if isinstance(e, ast.IfExp):
        a, b = length(e.body, st), length(e.orelse, st)
        if a == b:
            return a
        return lf_sym("len<%s>" % digest(e))
    if isinstance(e, ast.Attribute):
        return lf_sym("len(%s)" % src(e, 60))
    if isinstance(e, ast.Subscript):
        return lf_sym("len(%s)" % src(e, 60))
    return lf_sym("len<%s:%s>" % (type(e).__name__, digest(e)))


def value(e, st):
    """LF for the integer value of e."""
    if isinstance(e, ast.Constant) and isinstance(e.value, int) and not isinstance(e.value, bool):
        return lf_const(e.value)
    if isinstance(e, ast.Name):
        if e.id in st.vals:
            return st.vals[e.id]
        return lf_sym("val(%s)" % e.id)
    if isinstance(e, ast.Call) and _call_name(e) == "len" and len(e.args) == 1:
        return length(e.args[0], st)
    if isinstance(e, ast.BinOp) and isinstance(e.op, (ast.Add, ast.Sub)):
        return lf_add(value(e.left, st), value(e.right, st), 1 if isinstance(e.op, ast.Add) else -1)
    return lf_sym("val<%s>" % digest(e))


def sym_exec(stmts, st, stop=None):
    """Symbolically execute a statement list; returns the list of end states (forks at `if`).  `stop` (a statement)
    ends execution just before it."""
    states = [st]
    for s in stmts:
        if s is stop:
            return states
        nxt = []
        for cur in states:
            nxt.extend(_step(s, cur, stop))
        states = nxt
        if stop is not None and any(x is stop for x in ast.walk(s)) and not isinstance(s, (ast.If,)):
            return states
    return states


def _assign(t, v, st):
    if isinstance(t, ast.Name):
        st.lens[t.id] = length(v, st)
        st.vals[t.id] = value(v, st)
        st.exprs[t.id] = v
    elif isinstance(t, (ast.Tuple, ast.List)) and isinstance(v, (ast.Tuple, ast.List)) and len(t.elts) == len(v.elts):
        pre = st.copy()
        for te, ve in zip(t.elts, v.elts):
            if isinstance(te, ast.Name):
                st.lens[te.id] = length(ve, pre)
                st.vals[te.id] = value(ve, pre)
                st.exprs[te.id] = ve
    elif isinstance(t, ast.Attribute):
        st.attrs["attr:" + dump(t)] = length(v, st)


def _step(s, st, stop):
    st = st.copy()
    if isinstance(s, ast.Assign):
        for t in s.targets:
            _assign(t, s.value, st)
        return [st]
    if isinstance(s, ast.AugAssign) and isinstance(s.op, ast.Add) and isinstance(s.target, ast.Name):
        st.lens[s.target.id] = lf_add(length(s.target, st), length(s.value, st))
        return [st]
    if isinstance(s, ast.Expr) and isinstance(s.value, ast.Call) and _call_name(s.value) == "setattr" and len(s.value.args) == 3:
        obj, nm, val = s.value.args
        key = dump(ast.Call(func=ast.Name(id="getattr", ctx=ast.Load()), args=[obj, nm], keywords=[]))
        newlen = length(val, st)
        st.exprs["setattr:" + key] = val
        st.attrs[key] = newlen
        return [st]
    if isinstance(s, ast.If):
        a = st.copy()
        b = st.copy()
        if isinstance(s.test, ast.Name) and s.test.id in st.vals:
            b.assume.append(st.vals[s.test.id])
        outs = sym_exec(s.body, a, stop) + sym_exec(s.orelse, b, stop)
        return outs
    return [st]


def lf_equal(a, b, assume):
    d = lf_add(a, b, -1)
    if not d:
        return True
    for z in assume:
        for k in (1, -1):
            if lf_add(d, z, -k) == {}:
                return True
    return False


# ---------------------------------------------------------------------------- ALIGN-emit
def rule_align_emit(prog, rep, tier):
    global _HELPER_LEN
    _HELPER_LEN = helper_len_for(prog)
    try:
        return _rule_align_emit(prog, rep, tier)
    finally:
        _HELPER_LEN = None


def _rule_align_emit(prog, rep, tier):
    """ALIGN-emit: every `ast.arguments(...)` built by the package satisfies, as identities over symbolic lengths,
    len(kw_defaults) == len(kwonlyargs), and `defaults` is element-wise aligned with the tail of `args`
    (every length symbol of `defaults` occurs with the same coefficient in posonlyargs+args)."""
    n = 0
    for call in prog.all_calls():
        if prog.ext_name(call.func, call) != "ast.arguments":
            continue
        fn = enclosing_fn(call)
        if fn is None:
            continue
        n += 1
        kw = {k.arg: k.value for k in call.keywords if k.arg}
        top = call
        while top._parent is not fn.node:
            top = top._parent
        states = sym_exec(fn.node.body, State(), stop=top)
        bad = []
        unresolved = []
        for st in states:
            la = lf_add(length(kw.get("args", ast.List(elts=[])), st), length(kw.get("posonlyargs", ast.List(elts=[])), st))
            ld = length(kw.get("defaults", ast.List(elts=[])), st)
            lk = length(kw.get("kwonlyargs", ast.List(elts=[])), st)
            lkd = length(kw.get("kw_defaults", ast.List(elts=[])), st)
            problems = []
            if lk != lkd:
                problems.append((lk, lkd, "len(kw_defaults) = %s but len(kwonlyargs) = %s" % (lf_str(lkd), lf_str(lk))))
            if any(sym != "1" and la.get(sym, 0) != c for sym, c in ld.items()):
                problems.append((ld, la, "len(defaults) = %s is not the length of a tail of args (len(args) = %s): the defaults are not built one per "
                                 "argument from the same sequence, so they bind to the wrong (right-most) arguments" % (lf_str(ld), lf_str(la))))
            elif ld.get("1", 0) > la.get("1", 0) and not any(k != "1" for k in la):
                problems.append((ld, la, "more defaults (%s) than arguments (%s)" % (lf_str(ld), lf_str(la))))
            for x, y, msg in problems:
                # the symbols that make the difference: for defaults-vs-args those of `defaults` that `args` lacks (args may
                # have leading elements of its own), for kw_defaults-vs-kwonlyargs the whole difference
                syms = [k_ for k_ in lf_add(x, y, -1) if k_ != "1"] if x is lk else [k_ for k_, c_ in x.items() if k_ != "1" and y.get(k_, 0) != c_]
                # a filtered image is known to lose elements; a length the algebra cannot express (an opaque call) is not
                # known to differ: that is an unresolved obligation, not a violation
                if not any(k_.startswith("len<") for k_ in syms):
                    bad.append(msg)
                else:
                    unresolved.append(msg)
        where = fn.qualname
        k = sum(1 for c in prog.all_calls() if enclosing_fn(c) is fn and prog.ext_name(c.func, c) == "ast.arguments" and (c.lineno, c.col_offset) <= (call.lineno, call.col_offset))
        if bad:
            rep.violation(Finding("ALIGN-emit", where, "arguments#%d" % k, "; ".join(sorted(set(bad))), loc(prog, call)))
        elif unresolved:
            rep.ob("ALIGN-emit", "%s arguments(...)#%d" % (where, k), "unresolved", loc(prog, call), unresolved[0])
        else:
            rep.holds("ALIGN-emit", "%s arguments(...)#%d over %d path(s)" % (where, k, len(states)), loc(prog, call),
                      "kw_defaults/kwonlyargs equal and defaults aligned with args as identities")
    if n < 3:
        raise AnalysisError("ALIGN-emit: only %d ast.arguments(...) constructions found" % n)


# ---------------------------------------------------------------------------- ALIGN-parse
def rule_align_parse(prog, rep, tier, anchor="parse.function"):
    """ALIGN-parse: where signature defaults are padded so that they can be paired with the arguments (by index or by
    zip), the padded list has exactly the length of the argument list on every path, and keeps the original defaults as
    its suffix."""
    from sa.consteval import Folder
    folder = Folder(prog)
    fi = prog.inl(prog.fn(anchor))  # aliases of the signature object / accessor partials written out

    def pairs_of(e):
        """the constant ((args attr, defaults attr), ...) table an expression denotes (a display or a module constant)"""
        alts = [e.body, e.orelse] if isinstance(e, ast.IfExp) else [e]
        out = []
        for a in alts:
            v = folder.fold(a, {}, a)
            if isinstance(v, (set, frozenset)):
                v = sorted(v, key=repr)  # the pairing does not depend on the order of the table (DET-1 judges that)
            if isinstance(v, (tuple, list)) and v and all(isinstance(x, (tuple, list)) and len(x) == 2 and all(isinstance(y, str) for y in x) for x in v):
                out.append(tuple(tuple(x) for x in v))
        return out

    def pair_target(t):
        return isinstance(t, ast.Tuple) and len(t.elts) == 2 and all(isinstance(e, ast.Name) for e in t.elts)

    loops = []
    for n in ast.walk(fi.node):
        if isinstance(n, ast.For) and pair_target(n.target) and pairs_of(n.iter) \
                and any(isinstance(c, ast.Call) and _call_name(c) == "setattr" for c in ast.walk(n)):
            loops.append(n)
    # consumers: <getattr(obj, D)>[idx] with idx in range(len(getattr(obj, A))), or zip(getattr(obj, A), getattr(obj, D))
    consumers = []  # (node, pair target, pair iter, index generator or None, obj)
    for n in ast.walk(fi.node):
        if isinstance(n, ast.GeneratorExp) or isinstance(n, ast.ListComp):
            gens = n.generators
            pair_gen = [g for g in gens if pair_target(g.target) and pairs_of(g.iter)]
            idx_gen = [g for g in gens if isinstance(g.iter, ast.Call) and _call_name(g.iter) == "range"]
            if pair_gen and idx_gen:
                consumers.append((n, pair_gen[0].target, pair_gen[0].iter, idx_gen[0], None))
        if isinstance(n, ast.Call) and _call_name(n) == "zip" and len(n.args) == 2 and all(isinstance(a, ast.Call) and _call_name(a) == "getattr" and len(a.args) == 2
                                                                                         and isinstance(a.args[1], ast.Name) for a in n.args) \
                and dump(n.args[0].args[0]) == dump(n.args[1].args[0]):
            a_nm, d_nm = n.args[0].args[1].id, n.args[1].args[1].id
            p = n._parent
            while p is not None and p is not fi.node:
                cands = [p] if isinstance(p, ast.For) else list(getattr(p, "generators", []))
                for g in cands:
                    if pair_target(g.target) and [e.id for e in g.target.elts] == [a_nm, d_nm] and pairs_of(g.iter):
                        consumers.append((n, g.target, g.iter, None, n.args[0].args[0]))
                        p = None
                        break
                if p is not None:
                    p = p._parent
    if not consumers:
        raise AnalysisError("ALIGN-parse: no consumer pairing (args, defaults) by index or by zip found in %s" % anchor)
    if not loops:
        rep.violation(Finding("ALIGN-parse", anchor, "no-padding",
                              "signature defaults are paired with the arguments but never padded to the argument count", loc(prog, consumers[0][0])))
        return
    for comp, ptarget, piter, ig, zobj in consumers:
        a_name, d_name = ptarget.elts[0].id, ptarget.elts[1].id
        loop = next((l for l in loops if any(x in pairs_of(l.iter) for x in pairs_of(piter))), None)
        if loop is None:
            rep.violation(Finding("ALIGN-parse", anchor, "pairs-differ",
                                  "the padding loop and the consumer iterate different (args, defaults) pairs: %s vs %s" % (src(loops[0].iter, 60), src(piter, 60)), loc(prog, comp)))
            continue
        if ig is not None:
            # indexed expressions
            subs = [s for s in ast.walk(comp.elt) if isinstance(s, ast.Subscript) and isinstance(s.slice, ast.Name) and s.slice.id == ig.target.id]
            rng = ig.iter.args[-1] if ig.iter.args else None
            obj = None
            for s in subs:
                if isinstance(s.value, ast.Call) and _call_name(s.value) == "getattr" and len(s.value.args) == 2:
                    obj = s.value.args[0]
            if obj is None:
                rep.ob("ALIGN-parse", "consumer shape", "unresolved", loc(prog, comp), "indexed expressions are not getattr(obj, name)[idx]")
                continue
        else:
            obj, rng = zobj, None
        la_name, ld_name = loop.target.elts[0].id, loop.target.elts[1].id

        def ga(nm):
            return ast.Call(func=ast.Name(id="getattr", ctx=ast.Load()), args=[obj, ast.Name(id=nm, ctx=ast.Load())], keywords=[])

        A, D = ga(la_name), ga(ld_name)
        st0 = State()
        LA, LD = length(A, st0), length(D, st0)
        ends = sym_exec(loop.body, st0)
        problems = []
        for st in ends:
            newD = st.attrs.get(dump(D), LD)
            if not lf_equal(newD, LA, st.assume):
                problems.append("after the padding step len(%s) = %s, but it is indexed with range(len(%s)) = %s"
                                % (ld_name, lf_str(newD), la_name, lf_str(LA)))
            val = st.exprs.get("setattr:" + dump(D))
            if val is not None:
                # suffix must be the original list
                tail = val
                while isinstance(tail, ast.BinOp) and isinstance(tail.op, ast.Add):
                    tail = tail.right
                if isinstance(tail, ast.Name) and tail.id in st.exprs:
                    tail = st.exprs[tail.id]
                if dump(tail) != dump(D):
                    problems.append("the padded list does not end with the original %s list (%s): positions of the given defaults are not preserved"
                                    % (ld_name, src(tail, 60)))
        if ig is not None and dump(rng) != dump(ast.Call(func=ast.Name(id="len", ctx=ast.Load()), args=[ga(a_name)], keywords=[])):
            problems.append("the index range %s is not range(len(getattr(obj, %s)))" % (src(ig.iter, 60), a_name))
        if problems:
            rep.violation(Finding("ALIGN-parse", anchor, "padding", "; ".join(sorted(set(problems))), loc(prog, loop)))
        else:
            rep.holds("ALIGN-parse", "%s: padded defaults have the length of the arguments on all %d path(s) and keep the original as suffix"
                      % (anchor, len(ends)), loc(prog, loop), "len = %s" % lf_str(LA))


# ---------------------------------------------------------------------------- ALIGN-idx
def rule_align_idx(prog, rep, tier, anchor="ast_utils.RewriteAtQuery"):
    """ALIGN-idx: an index used on `<fn>.args.defaults` is obtained from the positional argument list only, and an index
    used on `kw_defaults` from the keyword-only list only.  The `_idx` numbering restarts at 0 for keyword-only arguments,
    so an index looked up across both lists and applied to `defaults` overwrites the default of an unrelated positional
    argument."""
    ci = prog.cls(anchor)
    region = []
    for m in ci.methods.values():
        for f in prog.region(m):
            if f not in region:
                region.append(f)
    n = 0

    sig_params = {}  # id(helper node) -> parameters that receive a `<fn>.args` object

    def lists_in(nodes):
        out = set()
        for nd in nodes:
            sp = sig_params.get(id(nd), set())
            for x in ast.walk(nd):
                if isinstance(x, ast.Attribute) and x.attr in ("args", "kwonlyargs", "posonlyargs") and isinstance(x.value, ast.Attribute) and x.value.attr == "args":
                    out.add(x.attr)
                elif isinstance(x, ast.Attribute) and x.attr in ("args", "kwonlyargs", "posonlyargs") and isinstance(x.value, ast.Name) and x.value.id in sp:
                    out.add(x.attr)
                elif isinstance(x, ast.Call) and _call_name(x) == "getattr" and len(x.args) >= 2 and isinstance(x.args[0], ast.Attribute) and x.args[0].attr == "args":
                    a = x.args[1]
                    if isinstance(a, ast.Constant) and a.value in ("args", "kwonlyargs", "posonlyargs"):
                        out.add(a.value)
                    elif isinstance(a, ast.Name):
                        # getattr(node.args, attr) with attr looping over a constant tuple
                        p = x
                        while p is not None:
                            it = getattr(p, "iter", None) if isinstance(p, (ast.For, ast.comprehension)) else None
                            if it is not None and isinstance(it, ast.Tuple) and a.id in {t.id for t in ast.walk(p.target) if isinstance(t, ast.Name)}:
                                out |= {e.value for e in it.elts if isinstance(e, ast.Constant) and e.value in ("args", "kwonlyargs", "posonlyargs")}
                            gens = getattr(p, "generators", None)
                            for g in gens or []:
                                if isinstance(g.iter, ast.Tuple) and a.id in {t.id for t in ast.walk(g.target) if isinstance(t, ast.Name)}:
                                    out |= {e.value for e in g.iter.elts if isinstance(e, ast.Constant) and e.value in ("args", "kwonlyargs", "posonlyargs")}
                            p = getattr(p, "_parent", None)
        return out

    def sources_of(name, fi, depth=0):
        """expressions (and helper functions) that define the index variable `name` in fi"""
        nodes = []
        for st in ast.walk(fi.node):
            if isinstance(st, ast.Assign) and any(isinstance(t, ast.Name) and t.id == name for t in st.targets):
                nodes.append(st.value)
                for c in ast.walk(st.value):
                    if isinstance(c, ast.Call) and isinstance(c.func, (ast.Name, ast.Attribute)) and depth < 2:
                        for t in prog.resolve_expr_fn(c.func, c):
                            if isinstance(t, FunctionInfo) and t in region and t is not fi:
                                nodes.append(t.node)
                                pn = t.params()
                                got = {pn[i] for i, a in enumerate(c.args) if i < len(pn) and isinstance(a, ast.Attribute) and a.attr == "args"}
                                got |= {k.arg for k in c.keywords if k.arg and isinstance(k.value, ast.Attribute) and k.value.attr == "args"}
                                sig_params.setdefault(id(t.node), set()).update(got)
            elif isinstance(st, (ast.For, ast.comprehension)) and name in {t.id for t in ast.walk(st.target) if isinstance(t, ast.Name)}:
                nodes.append(st.iter)
        return nodes

    for fi in region:
        for sub in ast.walk(fi.node):
            if not (isinstance(sub, ast.Subscript) and isinstance(sub.value, ast.Attribute) and sub.value.attr in ("defaults", "kw_defaults")
                    and isinstance(sub.value.value, ast.Attribute) and sub.value.value.attr == "args"):
                continue
            if not isinstance(sub.slice, ast.Name):
                continue
            n += 1
            which = sub.value.attr
            srcs = sources_of(sub.slice.id, fi)
            lists = lists_in(srcs)
            bad = ("kwonlyargs" in lists) if which == "defaults" else (("args" in lists or "posonlyargs" in lists) and "kwonlyargs" not in lists)
            inst = "%s: %s indexed by %s (looked up in %s)" % (fi.qualname, which, sub.slice.id, sorted(lists) or "?")
            if not lists:
                rep.ob("ALIGN-idx", inst, "unresolved", loc(prog, sub), "cannot see where the index comes from")
            elif bad:
                rep.violation(Finding("ALIGN-idx", prog.owner_name(fi) if fi.cls is None else fi.qualname.rsplit(".", 1)[0], "index-from-other-list:%s" % which,
                                      "%s is indexed with an index looked up in %s: the numbering of keyword-only arguments restarts at 0, so the default of an unrelated "
                                      "argument is overwritten" % (src(sub, 50), sorted(lists)), loc(prog, sub)))
            else:
                rep.holds("ALIGN-idx", inst, loc(prog, sub), "index and list belong together")
    if n == 0:
        raise AnalysisError("ALIGN-idx: no `<fn>.args.defaults[idx]` in %s" % anchor)
