"""
Program model shared by every rule: the production modules of /repo/doctrans parsed with `ast`
(never imported, never executed), parent links, qualified names, per-module name environments,
function-reference graph, findings and anchors.
"""
import ast
import hashlib
import os
import sys

REPO = os.environ.get("SA_REPO", "/repo")
PKG = "doctrans"


class AnalysisError(Exception):
    """An anchor vanished or the model is evidently incomplete: exit 2, never a silent pass."""


class FunctionInfo(object):
    def __init__(self, module, qualname, node, cls=None, parent_fn=None):
        self.module = module  # ModuleInfo
        self.qualname = qualname  # "emit.file", "ast_utils.RewriteAtQuery.visit_FunctionDef"
        self.node = node
        self.cls = cls  # ClassInfo or None
        self.parent_fn = parent_fn

    @property
    def name(self):
        return self.node.name if hasattr(self.node, "name") else "<lambda>"

    def params(self):
        a = self.node.args
        return [x.arg for x in a.posonlyargs + a.args + a.kwonlyargs]

    def __repr__(self):
        return "<fn %s>" % self.qualname


class ClassInfo(object):
    def __init__(self, module, qualname, node):
        self.module = module
        self.qualname = qualname
        self.node = node
        self.methods = {}

    def base_names(self):
        out = []
        for b in self.node.bases:
            if isinstance(b, ast.Name):
                out.append(b.id)
            elif isinstance(b, ast.Attribute):
                out.append(b.attr)
        return out


class ModuleInfo(object):
    def __init__(self, name, path, source):
        self.name = name  # short name: "emit"
        self.path = path
        self.source = source
        self.tree = ast.parse(source, filename=path)
        self.functions = {}  # local qualname -> FunctionInfo
        self.classes = {}
        self.env = {}  # module-level name -> binding tuple
        self.assigns = {}  # module-level name -> value expr (last assignment)


class Binding(tuple):
    """('func', FunctionInfo) | ('class', ClassInfo) | ('module', short name) | ('ext', dotted) | ('value', ModuleInfo, expr)"""


class _NoParents(object):
    """deepcopy helper: copy a subtree without dragging the whole module along through the _parent links"""


def _strip_parents(node):
    """structural copy of an AST subtree without the analysis attributes hung on the nodes (parent links, function and
    scope infos): a deepcopy would drag the whole program along through them"""
    if isinstance(node, list):
        return [_strip_parents(x) for x in node]
    if not isinstance(node, ast.AST):
        return node
    new = type(node)()
    for f in node._fields:
        if hasattr(node, f):
            setattr(new, f, _strip_parents(getattr(node, f)))
    for a in ("lineno", "col_offset", "end_lineno", "end_col_offset"):
        if hasattr(node, a):
            setattr(new, a, getattr(node, a))
    return new


class Program(object):
    def __init__(self, repo=None):
        self.repo = repo or REPO
        self.pkgdir = os.path.join(self.repo, PKG)
        self.modules = {}
        self._load()
        self._index()
        from sa import cfg as _cfg
        _cfg.PRED_INLINER = self.inline_pred
        _cfg.PRED_SUMMARY = self.pred_paths

    # ------------------------------------------------------------------ loading
    def _load(self):
        if not os.path.isdir(self.pkgdir):
            raise AnalysisError("package directory %s not found" % self.pkgdir)
        for fn in sorted(os.listdir(self.pkgdir)):
            if not fn.endswith(".py"):
                continue
            path = os.path.join(self.pkgdir, fn)
            with open(path, "rt") as f:
                src = f.read()
            name = fn[:-3]
            try:
                self.modules[name] = ModuleInfo(name, path, src)
            except SyntaxError as e:
                raise AnalysisError("cannot parse %s: %s" % (path, e))
        if len(self.modules) < 10:
            raise AnalysisError("only %d modules found under %s" % (len(self.modules), self.pkgdir))

    def _index(self):
        for m in self.modules.values():
            for node in ast.walk(m.tree):
                for child in ast.iter_child_nodes(node):
                    child._parent = node
            m.tree._parent = None
            m.tree._module = m
            self._index_scope(m, m.tree, "", None, None)
        for m in self.modules.values():
            self._build_env(m)

    def _index_scope(self, m, node, prefix, cls, parent_fn):
        for child in ast.iter_child_nodes(node):
            if isinstance(child, (ast.FunctionDef, ast.AsyncFunctionDef)):
                q = prefix + child.name
                fi = FunctionInfo(m, "%s.%s" % (m.name, q), child, cls if isinstance(node, ast.ClassDef) else None, parent_fn)
                m.functions[q] = fi
                child._fninfo = fi
                if isinstance(node, ast.ClassDef) and cls is not None:
                    cls.methods[child.name] = fi
                self._index_scope(m, child, q + ".", None, fi)
            elif isinstance(child, ast.ClassDef):
                q = prefix + child.name
                ci = ClassInfo(m, "%s.%s" % (m.name, q), child)
                m.classes[q] = ci
                child._clsinfo = ci
                self._index_scope(m, child, q + ".", ci, parent_fn)
            elif isinstance(child, ast.Lambda):
                self._index_scope(m, child, prefix, cls, parent_fn)
            else:
                self._index_scope(m, child, prefix, cls if isinstance(node, ast.ClassDef) else None, parent_fn)

    def _build_env(self, m):
        for stmt in m.tree.body:
            self._bind_stmt(m, stmt, m.env, m.assigns)

    def _bind_stmt(self, m, stmt, env, assigns):
        if isinstance(stmt, (ast.FunctionDef, ast.AsyncFunctionDef)):
            env[stmt.name] = ("func", stmt._fninfo)
        elif isinstance(stmt, ast.ClassDef):
            env[stmt.name] = ("class", stmt._clsinfo)
        elif isinstance(stmt, ast.Import):
            for a in stmt.names:
                nm = a.asname or a.name.split(".")[0]
                env[nm] = self._import_binding(a.name if a.asname else a.name.split(".")[0], None)
        elif isinstance(stmt, ast.ImportFrom):
            mod = stmt.module or ""
            for a in stmt.names:
                env[a.asname or a.name] = self._import_binding(mod, a.name)
        elif isinstance(stmt, ast.Assign):
            for t in stmt.targets:
                if isinstance(t, ast.Name):
                    env[t.id] = ("value", m, stmt.value)
                    assigns[t.id] = stmt.value
                elif isinstance(t, ast.Tuple) and isinstance(stmt.value, ast.Tuple) and len(t.elts) == len(stmt.value.elts):
                    for te, ve in zip(t.elts, stmt.value.elts):
                        if isinstance(te, ast.Name):
                            env[te.id] = ("value", m, ve)
                            assigns[te.id] = ve
        elif isinstance(stmt, ast.AnnAssign) and isinstance(stmt.target, ast.Name) and stmt.value is not None:
            env[stmt.target.id] = ("value", m, stmt.value)
            assigns[stmt.target.id] = stmt.value

    def _import_binding(self, mod, name):
        # returns a lazy binding; resolved in resolve()
        return ("import", mod, name)

    # ------------------------------------------------------------------ resolution
    def module_of(self, node):
        while getattr(node, "_parent", None) is not None:
            node = node._parent
        return node._module

    def resolve_import(self, mod, name, depth=0):
        """Resolve `from mod import name` / `import mod` to a binding."""
        if depth > 8:
            return ("ext", "%s.%s" % (mod, name))
        if mod == PKG and name is not None and name in self.modules:
            return ("module", name)
        if mod == PKG and name is None:
            return ("ext", PKG)
        if mod.startswith(PKG + "."):
            short = mod[len(PKG) + 1 :]
            if short in self.modules:
                if name is None:
                    return ("module", short)
                target = self.modules[short]
                b = target.env.get(name)
                if b is None:
                    return ("ext", "%s.%s" % (mod, name))
                if b[0] == "import":
                    return self.resolve_import(b[1], b[2], depth + 1)
                return b
        return ("ext", mod if name is None else "%s.%s" % (mod, name))

    def local_imports(self, fn_node):
        env = {}
        for node in ast.walk(fn_node):
            if isinstance(node, ast.ImportFrom):
                for a in node.names:
                    env[a.asname or a.name] = ("import", node.module or "", a.name)
            elif isinstance(node, ast.Import):
                for a in node.names:
                    env[a.asname or a.name.split(".")[0]] = ("import", a.name, None)
        return env

    def _scope_info(self, node):
        info = getattr(node, "_scopeinfo", None)
        if info is not None:
            return info
        a = node.args
        params = {x.arg for x in a.posonlyargs + a.args + a.kwonlyargs}
        if a.vararg:
            params.add(a.vararg.arg)
        if a.kwarg:
            params.add(a.kwarg.arg)
        imports, nested, assigned = {}, {}, set()
        if not isinstance(node, ast.Lambda):
            imports = self.local_imports(node)
            for ch in ast.walk(node):
                if isinstance(ch, (ast.FunctionDef, ast.AsyncFunctionDef)) and ch is not node and _owner_fn(ch) is node:
                    nested[ch.name] = ch._fninfo
            assigned = _assigned_names(node)
        info = (params, imports, nested, assigned)
        node._scopeinfo = info
        return info

    def lookup(self, name, at):
        """Binding of identifier `name` as seen from AST node `at` (module env + function-local imports
        + nested defs).  Local variables/parameters return ('local', fn_node)."""
        node = at
        top = at
        while node is not None:
            top = node
            if isinstance(node, (ast.FunctionDef, ast.AsyncFunctionDef, ast.Lambda)):
                params, imports, nested, assigned = self._scope_info(node)
                if name in params:
                    return ("param", node)
                if name in imports:
                    b = imports[name]
                    return self.resolve_import(b[1], b[2])
                if name in nested:
                    return ("func", nested[name])
                if name in assigned:
                    return ("local", node)
            elif isinstance(node, (ast.ListComp, ast.SetComp, ast.DictComp, ast.GeneratorExp)):
                for g in node.generators:
                    if name in {n.id for n in ast.walk(g.target) if isinstance(n, ast.Name)}:
                        return ("local", node)
            node = getattr(node, "_parent", None)
        m = top._module
        b = m.env.get(name)
        if b is None:
            return ("builtin", name)
        if b[0] == "import":
            return self.resolve_import(b[1], b[2])
        return b

    def resolve_expr_fn(self, expr, at=None):
        """Resolve an expression denoting a function to a list of FunctionInfo / ('ext', dotted) targets.
        Handles names, attributes of module aliases, partial(f, ...) (returns f)."""
        at = at or expr
        if isinstance(expr, ast.Name):
            b = self.lookup(expr.id, at)
            if b[0] == "func":
                return [b[1]]
            if b[0] == "class":
                return [b[1]]
            if b[0] == "ext":
                return [b]
            if b[0] == "builtin":
                return [("ext", "builtins." + expr.id)]
            if b[0] == "value":
                return self.resolve_expr_fn(b[2], b[2])
            if b[0] == "param" and isinstance(b[1], ast.FunctionDef):
                return self._resolve_param_fn(expr.id, b[1])
            if b[0] == "local" and isinstance(b[1], (ast.FunctionDef, ast.AsyncFunctionDef)):
                # a local bound exactly once to a function-valued expression (e.g. `g = partial(f, ...)`)
                defs = [n for n in ast.walk(b[1]) if isinstance(n, ast.Assign) and any(isinstance(t, ast.Name) and t.id == expr.id for t in n.targets)]
                if len(defs) == 1 and not _mentions(defs[0].value, expr.id):
                    return self.resolve_expr_fn(defs[0].value, defs[0].value)
            return []
        if isinstance(expr, ast.Attribute):
            base = expr.value
            if isinstance(base, ast.Name):
                b = self.lookup(base.id, at)
                if b[0] == "module":
                    tm = self.modules[b[1]]
                    tb = tm.env.get(expr.attr)
                    if tb is None:
                        return []
                    if tb[0] == "import":
                        tb = self.resolve_import(tb[1], tb[2])
                    if tb[0] in ("func", "class"):
                        return [tb[1]]
                    if tb[0] == "ext":
                        return [tb]
                    return []
                if b[0] == "ext":
                    return [("ext", "%s.%s" % (b[1], expr.attr))]
                if b[0] == "class":
                    mth = b[1].methods.get(expr.attr)
                    return [mth] if mth else []
                if base.id in ("self", "cls"):
                    # a method of the class the call is written in
                    c = at
                    while c is not None and not isinstance(c, ast.ClassDef):
                        c = getattr(c, "_parent", None)
                    if c is not None:
                        for ci in self.module_of(c).classes.values():
                            if ci.node is c:
                                mth = ci.methods.get(expr.attr)
                                return [mth] if mth else []
            elif isinstance(base, ast.Attribute):
                inner = self.resolve_expr_fn(base, at)
                return [("ext", "%s.%s" % (t[1], expr.attr)) for t in inner if isinstance(t, tuple) and t[0] == "ext"]
            return []
        if isinstance(expr, ast.Call):
            f = self.resolve_expr_fn(expr.func, at)
            if any(isinstance(t, tuple) and t[1] in ("functools.partial",) for t in f) and expr.args:
                return self.resolve_expr_fn(expr.args[0], at)
            if any(isinstance(t, FunctionInfo) and t.qualname == "pure_utils.rpartial" for t in f) and expr.args:
                return self.resolve_expr_fn(expr.args[0], at)
        if isinstance(expr, ast.IfExp):
            return self.resolve_expr_fn(expr.body, at) + self.resolve_expr_fn(expr.orelse, at)
        return []

    def _resolve_param_fn(self, name, fn_node):
        """A parameter called as a function inside a closure / private helper all of whose uses are direct calls: the
        union of what the call sites pass for it (the caller hands over `partial(worker, ...)`, the helper calls it)."""
        busy = self.__dict__.setdefault("_param_busy", set())
        key = (id(fn_node), name)
        if key in busy:
            return []
        busy.add(key)
        try:
            exprs = self.param_arg_exprs(name, fn_node)
            out = []
            for v in exprs or []:
                for t in self.resolve_expr_fn(v, v):
                    if t not in out:
                        out.append(t)
            return out
        finally:
            busy.discard(key)

    def param_arg_exprs(self, name, fn_node):
        """The expressions every call site passes for parameter `name` of a closure / private module-level helper whose
        every use is a direct call (so all callers are visible); None when that cannot be established."""
        fi = getattr(fn_node, "_fninfo", None)
        if fi is None or (fi.parent_fn is None and (not fi.name.startswith("_") or fi.cls is not None)):
            return None
        if True:
            root = fi.parent_fn.node if fi.parent_fn is not None else fi.module.tree
            calls = []
            for n in ast.walk(root):
                if isinstance(n, ast.Name) and n.id == fi.name and isinstance(n.ctx, ast.Load):
                    b = self.lookup(n.id, n)
                    if b[0] == "func" and b[1] is fi:
                        par = getattr(n, "_parent", None)
                        if not (isinstance(par, ast.Call) and par.func is n):
                            return None  # the helper escapes as a value: its callers are not all visible
                        calls.append(par)
            a = fn_node.args
            pos = [x.arg for x in a.posonlyargs + a.args]
            defaults = dict(zip(pos[len(pos) - len(a.defaults):], a.defaults))
            defaults.update({x.arg: d for x, d in zip(a.kwonlyargs, a.kw_defaults) if d is not None})
            out = []
            for c in calls:
                if any(isinstance(x, ast.Starred) for x in c.args) or any(k.arg is None for k in c.keywords):
                    return None
                v = None
                if name in pos and pos.index(name) < len(c.args):
                    v = c.args[pos.index(name)]
                else:
                    v = next((k.value for k in c.keywords if k.arg == name), defaults.get(name))
                if v is None:
                    return None
                out.append(v)
            return out

    def inline_pred(self, call):
        """`helper(args)` where helper is a function of the package whose body is a single `return <expr>`: that
        expression with the parameters replaced by the arguments (a fresh tree, parent-linked, positioned at the call);
        None when the callee is not of that shape.  Lets condition analyses see through predicate helpers."""
        key = id(call)
        cache = self.__dict__.setdefault("_inline_cache", {})
        if key in cache and cache[key][0] is call:
            return cache[key][1]
        out = None
        try:
            tg = [t for t in self.resolve_expr_fn(call.func, call) if isinstance(t, FunctionInfo)]
        except AnalysisError:
            tg = []
        if len(tg) == 1 and isinstance(tg[0].node, (ast.FunctionDef,)):
            fd = tg[0].node
            body = [st for st in fd.body if not (isinstance(st, ast.Expr) and isinstance(st.value, ast.Constant) and isinstance(st.value.value, str))]
            a = fd.args
            if len(body) == 1 and isinstance(body[0], ast.Return) and body[0].value is not None and a.vararg is None and a.kwarg is None \
                    and not any(isinstance(x, ast.Starred) for x in call.args) and all(k.arg for k in call.keywords):
                pn = [x.arg for x in a.posonlyargs + a.args]
                is_method = isinstance(getattr(fd, "_parent", None), ast.ClassDef) and pn and pn[0] in ("self", "cls") and isinstance(call.func, ast.Attribute)
                bind = {}
                if is_method:
                    bind[pn[0]] = call.func.value
                    pn_ = pn[1:]
                else:
                    pn_ = pn
                ok = len(call.args) <= len(pn_)
                for nme, v in zip(pn_, call.args):
                    bind[nme] = v
                for k in call.keywords:
                    if k.arg in pn or k.arg in [x.arg for x in a.kwonlyargs]:
                        bind[k.arg] = k.value
                    else:
                        ok = False
                defaults = dict(zip(pn[len(pn) - len(a.defaults):], a.defaults))
                defaults.update({x.arg: d for x, d in zip(a.kwonlyargs, a.kw_defaults) if d is not None})
                for nme in pn + [x.arg for x in a.kwonlyargs]:
                    if nme not in bind:
                        if nme in defaults:
                            bind[nme] = defaults[nme]
                        else:
                            ok = False
                if ok:
                    import copy

                    class Sub(ast.NodeTransformer):
                        def visit_Name(self_, n):
                            if n.id in bind and isinstance(n.ctx, ast.Load):
                                return _strip_parents(bind[n.id])
                            return n

                        def visit_Lambda(self_, n):
                            return n
                    expr = Sub().visit(_strip_parents(body[0].value))
                    for x in ast.walk(expr):
                        ast.copy_location(x, call)
                        for ch in ast.iter_child_nodes(x):
                            ch._parent = x
                    expr._parent = getattr(call, "_parent", None)
                    expr._inlined_from = call
                    out = expr
        cache[key] = (call, out)
        return out

    def see_through(self, expr, rounds=6):
        """`expr` with every call of a single-return helper of the package replaced by that helper's expression (see
        inline_pred), repeatedly: a fresh parent-linked tree hung at expr's place.  Rules that judge the *shape* of a
        condition or of an element expression read it as if the helper had never been extracted."""
        def link(n, parent):
            n._parent = parent
            for ch in ast.iter_child_nodes(n):
                link(ch, n)
        root = _strip_parents(expr)
        link(root, getattr(expr, "_parent", None))
        holder = [root]
        for _ in range(rounds):
            changed = False
            for n in list(ast.walk(holder[0])):
                if not isinstance(n, ast.Call):
                    continue
                e = self.inline_pred(n)
                if e is None:
                    continue
                par = n._parent
                if n is holder[0]:
                    holder[0] = e
                else:
                    for f in par._fields:
                        v = getattr(par, f, None)
                        if v is n:
                            setattr(par, f, e)
                        elif isinstance(v, list):
                            for i, x in enumerate(v):
                                if x is n:
                                    v[i] = e
                link(e, par)
                changed = True
                break
            if not changed:
                break
        return holder[0]

    def pred_paths(self, call, polarity):
        """`helper(args)` used as a condition, where helper is a multi-statement package function: for each path of the
        helper on which its result can have truth value `polarity`, the atomic facts that hold on that path (branch
        conditions passed, and the returned expression itself having that truth value), with the helper's parameters
        replaced by the call's arguments.  None when the callee is not analysable.  A disjunctive summary: the caller
        knows that one of the alternatives holds."""
        key = (id(call), bool(polarity))
        cache = self.__dict__.setdefault("_predpaths_cache", {})
        if key in cache and cache[key][0] is call:
            return cache[key][1]
        out = None
        depth = self.__dict__.get("_predpaths_depth", 0)
        try:
            tg = [t for t in self.resolve_expr_fn(call.func, call) if isinstance(t, FunctionInfo)] if isinstance(call.func, (ast.Name, ast.Attribute)) else []
        except AnalysisError:
            tg = []
        if depth < 2 and len(tg) == 1 and isinstance(tg[0].node, ast.FunctionDef) and self.inline_pred(call) is None:
            fd = tg[0].node
            a = fd.args
            if a.vararg is None and a.kwarg is None and not any(isinstance(x, ast.Starred) for x in call.args) and all(k.arg for k in call.keywords):
                from sa import cfg as _cfg
                self.__dict__["_predpaths_depth"] = depth + 1
                try:
                    try:
                        paths = _cfg.CFG(fd).paths(limit=600)
                    except RuntimeError:
                        paths = None
                    if paths is not None:
                        pn = [x.arg for x in a.posonlyargs + a.args]
                        is_method = isinstance(getattr(fd, "_parent", None), ast.ClassDef) and pn and pn[0] in ("self", "cls") and isinstance(call.func, ast.Attribute)
                        bind = {}
                        names_ = pn[1:] if is_method else pn
                        if is_method:
                            bind[pn[0]] = call.func.value
                        for nme, v in zip(names_, call.args):
                            bind[nme] = v
                        for k in call.keywords:
                            bind[k.arg] = k.value
                        rebound = {n_.id for n_ in ast.walk(fd) if isinstance(n_, ast.Name) and isinstance(n_.ctx, (ast.Store, ast.Del))}
                        import copy

                        class Sub(ast.NodeTransformer):
                            def visit_Name(self_, n):
                                if n.id in bind and n.id not in rebound and isinstance(n.ctx, ast.Load):
                                    return _strip_parents(bind[n.id])
                                return n

                        def subst(atom):
                            e = Sub().visit(_strip_parents(atom))
                            for x in ast.walk(e):
                                ast.copy_location(x, call)
                                for ch in ast.iter_child_nodes(x):
                                    ch._parent = x
                            e._parent = getattr(call, "_parent", None)
                            e._from_helper = tg[0].qualname
                            return e
                        alts = []
                        for path in paths:
                            if path[-1][0].kind != "RETURN":
                                continue
                            rets = [n_.stmt for n_, _ in path if n_.kind == "return"]
                            rv = rets[-1].value if rets else None
                            lit = None
                            if rv is None:
                                lit = False
                            elif isinstance(rv, ast.Constant):
                                lit = bool(rv.value)
                            if lit is not None and lit != bool(polarity):
                                continue
                            fs = list(_cfg.path_facts(path))
                            if lit is None:
                                fs += _cfg.facts(rv, bool(polarity))
                            alts.append([(subst(at), pl) for at, pl in fs])
                        out = alts
                finally:
                    self.__dict__["_predpaths_depth"] = depth
        cache[key] = (call, out)
        return out

    def ext_name(self, expr, at=None):
        """Dotted external name a Name/Attribute expression denotes ('os.path.isfile'), or None."""
        for t in self.resolve_expr_fn(expr, at or expr):
            if isinstance(t, tuple) and t[0] == "ext":
                return t[1]
        return None

    def is_fn(self, expr, qualname, at=None):
        return any(isinstance(t, FunctionInfo) and t.qualname == qualname for t in self.resolve_expr_fn(expr, at or expr))

    # ------------------------------------------------------------------ anchors
    def fn(self, qualname):
        mod, _, local = qualname.partition(".")
        m = self.modules.get(mod)
        if m is None or local not in m.functions:
            raise AnalysisError("anchor function %s not found in %s" % (qualname, self.pkgdir))
        return m.functions[local]

    def fn_role(self, qualname, role):
        """A private helper anchored by role: the function of that name if it still exists, else the unique function that
        plays `role` (so that a rename of a private helper is not an analysis error)."""
        if self.has_fn(qualname):
            return self.fn(qualname)
        cands = ROLES[role](self)
        if len(cands) == 1:
            return cands[0]
        raise AnalysisError("anchor %s not found and its role %r is played by %d functions" % (qualname, role, len(cands)))

    def inl(self, fi):
        """fi with the statement-position calls of its private same-module helpers inlined (sa.inline): what the path
        rules analyse, so that `extract function` does not hide a path"""
        from sa.inline import inlined
        return inlined(self, fi)

    def cls(self, qualname):
        mod, _, local = qualname.partition(".")
        m = self.modules.get(mod)
        if m is None or local not in m.classes:
            raise AnalysisError("anchor class %s not found in %s" % (qualname, self.pkgdir))
        return m.classes[local]

    def has_fn(self, qualname):
        mod, _, local = qualname.partition(".")
        return mod in self.modules and local in self.modules[mod].functions

    def all_functions(self):
        for m in self.modules.values():
            for f in m.functions.values():
                yield f

    # ------------------------------------------------------------------ reference graph
    def references(self, fi):
        """Program functions/classes referenced (called or passed) anywhere in the body of fi, incl. nested lambdas
        (nested defs are separate FunctionInfo but referenced by name, so they appear too)."""
        cached = getattr(fi, "_refs", None)
        if cached is not None:
            return cached
        out = []
        seen = set()
        for node in ast.walk(fi.node):
            if isinstance(node, (ast.Name, ast.Attribute)) and isinstance(getattr(node, "ctx", None), ast.Load):
                for t in self.resolve_expr_fn(node, node):
                    if isinstance(t, FunctionInfo) and id(t) not in seen and t is not fi:
                        seen.add(id(t))
                        out.append(t)
                    elif isinstance(t, ClassInfo):
                        for mth in t.methods.values():
                            if id(mth) not in seen:
                                seen.add(id(mth))
                                out.append(mth)
        # nested defs belong to the function
        for node in ast.walk(fi.node):
            if isinstance(node, (ast.FunctionDef, ast.AsyncFunctionDef)) and node is not fi.node:
                t = node._fninfo
                if id(t) not in seen:
                    seen.add(id(t))
                    out.append(t)
        fi._refs = out
        return out

    def reachable(self, roots):
        seen, order, todo = set(), [], list(roots)
        while todo:
            f = todo.pop()
            if id(f) in seen:
                continue
            seen.add(id(f))
            order.append(f)
            todo.extend(self.references(f))
        return order

    def region(self, fi, same_module=True):
        """fi plus every function reachable from it through the reference graph (restricted to fi's module): the unit a
        rule examines when it is about `what fi does`, so that extracting a private helper does not hide a construct."""
        out = [f for f in self.reachable([fi]) if not same_module or f.module is fi.module]
        return out

    def owner_name(self, fi):
        """qualname under which a construct inside fi is reported: a private module-level helper that serves exactly one
        public function of its module is attributed to that function, so extracting the helper does not rename a finding"""
        local = fi.qualname.split(".", 1)[1] if "." in fi.qualname else fi.qualname
        if not local.startswith("_") or local.startswith("__") or "." in local:
            return fi.qualname
        owners = [g for g in fi.module.functions.values() if g is not fi and "." not in g.qualname.split(".", 1)[1] and not g.qualname.split(".", 1)[1].startswith("_")
                  and fi in self.region(g)]
        return owners[0].qualname if len(owners) == 1 else fi.qualname

    def callers_of(self, fi):
        """(caller FunctionInfo or None for module level, Call node) for every call whose func resolves to fi."""
        out = []
        for node in self.all_calls():
            if any(t is fi for t in self.resolve_expr_fn(node.func, node)):
                out.append((enclosing_fn(node), node))
        return out

    def all_calls(self):
        c = getattr(self, "_all_calls", None)
        if c is None:
            c = [n for m in self.modules.values() for n in ast.walk(m.tree) if isinstance(n, ast.Call)]
            self._all_calls = c
        return c

    def memo(self, key, compute):
        d = self.__dict__.setdefault("_memo", {})
        if key not in d:
            d[key] = compute()
        return d[key]


# ---------------------------------------------------------------------- helpers
def _owner_fn(node):
    p = getattr(node, "_parent", None)
    while p is not None and not isinstance(p, (ast.FunctionDef, ast.AsyncFunctionDef, ast.Lambda, ast.Module)):
        p = p._parent
    return p


def _assigned_names(fn_node):
    names = set()
    for n in ast.walk(fn_node):
        if isinstance(n, ast.Name) and isinstance(n.ctx, (ast.Store, ast.Del)):
            names.add(n.id)
    return names


def _mentions(e, name):
    return any(isinstance(n, ast.Name) and n.id == name for n in ast.walk(e))


def enclosing_fn(node):
    """Innermost FunctionDef (not lambda) containing node -> FunctionInfo or None."""
    p = getattr(node, "_parent", None)
    while p is not None:
        if isinstance(p, (ast.FunctionDef, ast.AsyncFunctionDef)):
            return p._fninfo
        p = getattr(p, "_parent", None)
    return None


def order_key(node, end=False):
    """position of a node for before/after comparisons inside one function: the sequence number given by the inliner
    when the function is a merged one, else the line number"""
    if end:
        v = getattr(node, "_seq_end", None)
        return v if v is not None else getattr(node, "end_lineno", node.lineno)
    v = getattr(node, "_seq", None)
    return v if v is not None else node.lineno


def enclosing_stmt(node):
    while node is not None and not isinstance(node, ast.stmt):
        node = getattr(node, "_parent", None)
    return node


def parents(node):
    p = getattr(node, "_parent", None)
    while p is not None:
        yield p
        p = getattr(p, "_parent", None)


def names_in(expr):
    return {n.id for n in ast.walk(expr) if isinstance(n, ast.Name)}


def dump(node):
    return ast.dump(node, annotate_fields=True, include_attributes=False)


def digest(node_or_str):
    s = node_or_str if isinstance(node_or_str, str) else dump(node_or_str)
    return hashlib.sha1(s.encode()).hexdigest()[:12]


def src(node, limit=160):
    try:
        s = ast.unparse(node)
    except Exception:
        s = "<%s>" % type(node).__name__
    s = " ".join(s.split())
    return s if len(s) <= limit else s[: limit - 3] + "..."


def loc(prog, node):
    m = prog.module_of(node)
    return "%s/%s.py:%d" % (PKG, m.name, getattr(node, "lineno", 0))


def call_name(call):
    f = call.func
    if isinstance(f, ast.Name):
        return f.id
    if isinstance(f, ast.Attribute):
        return f.attr
    return None


def kwarg(call, name, pos=None):
    for k in call.keywords:
        if k.arg == name:
            return k.value
    if pos is not None and len(call.args) > pos and not any(isinstance(a, ast.Starred) for a in call.args[: pos + 1]):
        return call.args[pos]
    return None


class Finding(object):
    """One armed rule violation.  `construct` is a semantic, position-free identifier of the offending construct
    (stable under reformatting / moved lines); the key (rule, where, construct) is what known_findings.json lists."""

    def __init__(self, rule, where, construct, message, location, props=(), demo=None):
        self.rule = rule
        self.where = where
        self.construct = construct
        self.message = message
        self.location = location
        self.props = tuple(props)
        self.demo = demo

    def key(self):
        return (self.rule, self.where, self.construct)

    def as_dict(self):
        return {
            "rule": self.rule,
            "where": self.where,
            "construct": self.construct,
            "message": self.message,
            "location": self.location,
        }


class Report(object):
    """Collected by a property run: findings (armed), obligations (each with verdict), informational notes."""

    def __init__(self):
        self.findings = []
        self.obligations = []  # dict(rule, instance, verdict, location, reason)
        self.info = []
        self.units = []

    def ob(self, rule, instance, verdict, location="", reason=""):
        self.obligations.append(
            {"rule": rule, "instance": instance, "verdict": verdict, "location": location, "reason": reason}
        )

    def holds(self, rule, instance, location="", reason=""):
        self.ob(rule, instance, "holds", location, reason)

    def violation(self, finding):
        self.findings.append(finding)
        self.ob(finding.rule, finding.construct, "violation", finding.location, finding.message)

    def note(self, rule, text, location=""):
        self.info.append({"rule": rule, "text": text, "location": location})

    def count(self, rule):
        """obligations of `rule` that were decided (an obligation left `unresolved` does not count towards a floor)"""
        return sum(1 for o in self.obligations if o["rule"] == rule and o["verdict"] != "unresolved")


# ---------------------------------------------------------------------- roles of private anchors
def _role_conform_file(prog):
    """the function of `conformance` (other than the public worker) that writes target files through emit.file"""
    out = []
    m = prog.modules.get("conformance")
    if m is None:
        return out
    for f in m.functions.values():
        if f.qualname == "conformance.ground_truth" or f.parent_fn is not None:
            continue
        n_emit = sum(1 for c in ast.walk(f.node) if isinstance(c, ast.Call) and prog.is_fn(c.func, "emit.file", c))
        if n_emit >= 2:
            out.append(f)
    return out


def _role_build_parser(prog):
    out = []
    m = prog.modules.get("__main__")
    if m is None:
        return out
    for f in m.functions.values():
        if any(isinstance(c, ast.Call) and isinstance(c.func, ast.Attribute) and c.func.attr == "add_subparsers" for c in ast.walk(f.node)):
            out.append(f)
    return out


ROLES = {"conform_file": _role_conform_file, "build_parser": _role_build_parser}
