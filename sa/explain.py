#!/venv/bin/python
"""Print a replay file and re-run the property it belongs to on the current tree."""
import json, os, subprocess, sys
d = json.load(open(sys.argv[1]))
print(json.dumps(d, indent=1))
sys.exit(subprocess.call([sys.executable, os.path.join(os.path.dirname(os.path.abspath(__file__)), "run.py"), d["property"], "--tier", d.get("tier", "quick")]))
