"""
Demo for the `doctrans.emit.file` atomic write repair.

Run as `PYTHONPATH=<tree> /venv/bin/python demo.py`; prints PASS (exit 0) on the repaired tree, FAIL (exit 1) on the
unchanged tree.

Guarantee which is checked, for modes "wt"/"w"/"a"/"at" on existing and on missing files, with faults injected at
different points (first write, partial write, mid way, fsync, chmod/copymode, os.replace, KeyboardInterrupt, rendering):

  * after a failed `emit.file` the target is byte-identical to before (absent when it was absent) or is the complete
    new content, never truncated / half-written;
  * after a `emit.file` which returned, the target is the complete new content;
  * the injected exception is propagated (not swallowed);
  * no temporary / stray files are left in the directory;
  * a rendering / formatting error happens before anything is opened for writing.

The faults are injected below `emit.file` (builtins.open / io.open / os.fdopen / os.write / os.fsync / os.replace /
os.rename / os.chmod / shutil.copymode), it is not assumed how `emit.file` is implemented.
"""
import ast
import builtins
import errno
import io
import os
import pathlib
import shutil
import stat
import sys
import tempfile
import traceback

from doctrans import emit

CLASS_SRC = '''
class ConfigClass(object):
    """
    Acquire from the official tensorflow_datasets model zoo, or the ophthalmology focussed ml-prepare library

    :cvar dataset_name: name of dataset. Defaults to "mnist"
    :cvar tfds_dir: directory to look for models in. Defaults to "~/tensorflow_datasets"
    """

    dataset_name: str = "mnist"
    tfds_dir: Optional[str] = "~/tensorflow_datasets"

    def __call__(self):
        return self.dataset_name, self.tfds_dir, [i * 2 for i in range(10)], {"a": 1, "b": 2, "c": (3, 4, 5)}
'''

FUNC_SRC = '''
def train(dataset_name="mnist", epochs=5):
    """
    Run the training loop

    :param dataset_name: name of dataset
    :param epochs: number of epochs
    """
    return dataset_name, epochs
'''

CLASS_NODE = ast.parse(CLASS_SRC).body[0]
FUNC_NODE = ast.parse(FUNC_SRC).body[0]
MODULE_NODE = ast.parse(CLASS_SRC + "\n" + FUNC_SRC)

RESULTS = []  # (ok, name, detail)


def record(ok, name, detail=""):
    """ Remember one check """
    RESULTS.append((bool(ok), name, detail))


# --------------------------------------------------------------------------------------------------------------------
# Fault injection
# --------------------------------------------------------------------------------------------------------------------


class Plan(object):
    """ What to break during one `emit.file` call """

    def __init__(self, workdir, fail_after=None, exc=None, break_call=None):
        self.workdir = os.path.realpath(workdir)
        self.fail_after = fail_after  # number of bytes/chars which may be written before `exc` is raised
        self.exc = exc if exc is not None else OSError(errno.ENOSPC, "No space left on device (injected)")
        self.break_call = break_call  # name of a function which raises `exc` when called: "os.replace", ...
        self.written = 0
        self.fired = 0
        self.opened_for_write = []

    def fire(self):
        """ Raise the injected exception """
        self.fired += 1
        raise self.exc


PLAN = None

REAL = {
    "builtins.open": builtins.open,
    "io.open": io.open,
    "os.fdopen": os.fdopen,
    "os.open": os.open,
    "os.write": os.write,
    "os.fsync": os.fsync,
    "os.replace": os.replace,
    "os.rename": os.rename,
    "os.chmod": os.chmod,
    "shutil.copymode": shutil.copymode,
}
if hasattr(os, "fchmod"):
    REAL["os.fchmod"] = os.fchmod


EMIT_REAL = {}
REFERENCES = {}


class FaultyFile(object):
    """ Proxy of a file object (text or binary) which writes part of the data and then raises """

    def __init__(self, real, plan):
        object.__setattr__(self, "_real", real)
        object.__setattr__(self, "_plan", plan)

    def __getattr__(self, item):
        return getattr(self._real, item)

    def __enter__(self):
        self._real.__enter__()
        return self

    def __exit__(self, *exc_info):
        return self._real.__exit__(*exc_info)

    def __iter__(self):
        return iter(self._real)

    @property
    def buffer(self):
        """ The binary layer, breaks in the same way """
        return FaultyFile(self._real.buffer, self._plan)

    def write(self, data):
        """ Write until the budget of the plan is used up, then raise """
        plan = self._plan
        if plan is not PLAN or plan.fail_after is None:
            return self._real.write(data)
        room = plan.fail_after - plan.written
        if len(data) <= room:
            plan.written += len(data)
            return self._real.write(data)
        if room > 0:
            self._real.write(data[:room])
            plan.written += room
        try:
            self._real.flush()  # what was written did reach the disk, like a disk running full half way
        except Exception:
            pass
        plan.fire()

    def writelines(self, lines):
        """ Same budget for writelines """
        for line in lines:
            self.write(line)


def _inside(plan, file):
    """ Is this path inside of the directory the test works in """
    try:
        file = os.path.realpath(os.fspath(file))
    except TypeError:
        return False
    if isinstance(file, bytes):
        file = os.fsdecode(file)
    return file == plan.workdir or file.startswith(plan.workdir + os.sep)


def _make_open(name):
    real = REAL[name]

    def _open(file, mode="r", *args, **kwargs):
        plan = PLAN
        f = real(file, mode, *args, **kwargs)
        if plan is None or isinstance(f, FaultyFile) or not set(mode) & set("wax+"):
            return f
        if isinstance(file, int) or _inside(plan, file):
            plan.opened_for_write.append((name, file, mode))
            return FaultyFile(f, plan)
        return f

    _open.__name__ = real.__name__
    return _open


def _os_open(file, flags, mode=0o777, *args, **kwargs):
    plan = PLAN
    if plan is not None and flags & (os.O_WRONLY | os.O_RDWR | os.O_CREAT | os.O_TRUNC | os.O_APPEND) and _inside(
        plan, file
    ):
        plan.opened_for_write.append(("os.open", file, flags))
    return REAL["os.open"](file, flags, mode, *args, **kwargs)


def _os_write(fd, data):
    plan = PLAN
    if plan is None or plan.fail_after is None or fd in (1, 2):
        return REAL["os.write"](fd, data)
    room = plan.fail_after - plan.written
    if len(data) <= room:
        plan.written += len(data)
        return REAL["os.write"](fd, data)
    if room > 0:
        REAL["os.write"](fd, data[:room])
        plan.written += room
    plan.fire()


def _make_breakable(name):
    real = REAL[name]

    def _call(*args, **kwargs):
        plan = PLAN
        if plan is not None and plan.break_call == name:
            plan.fire()
        return real(*args, **kwargs)

    _call.__name__ = real.__name__
    return _call


def install():
    """ Put the wrappers in place (they do nothing while PLAN is None) """
    builtins.open = _make_open("builtins.open")
    io.open = _make_open("io.open")
    os.fdopen = _make_open("os.fdopen")
    os.open = _os_open
    os.write = _os_write
    for name in "os.fsync", "os.replace", "os.rename", "os.chmod", "os.fchmod", "shutil.copymode":
        if name in REAL:
            mod, attr = name.split(".")
            setattr({"os": os, "shutil": shutil}[mod], attr, _make_breakable(name))
    # names which `doctrans.emit` imported with `from ... import ...`
    for attr in "copymode", "replace", "fsync", "chmod", "fchmod", "rename", "fdopen":
        if hasattr(emit, attr):
            EMIT_REAL.setdefault(attr, getattr(emit, attr))
            mod = shutil if attr == "copymode" else os
            setattr(emit, attr, getattr(mod, attr))


def uninstall():
    """ Restore everything """
    for name, real in REAL.items():
        mod, attr = name.split(".")
        setattr({"os": os, "shutil": shutil, "io": io, "builtins": builtins}[mod], attr, real)
    for attr, real in EMIT_REAL.items():
        setattr(emit, attr, real)


# --------------------------------------------------------------------------------------------------------------------
# Helpers
# --------------------------------------------------------------------------------------------------------------------


def read_bytes(filename):
    """ Content of the file, None when there is no such file """
    try:
        with REAL["builtins.open"](filename, "rb") as f:
            return f.read()
    except FileNotFoundError:
        return None


def write_bytes(filename, data, perm=None):
    """ Create the file with this content """
    with REAL["builtins.open"](filename, "wb") as f:
        f.write(data)
    if perm is not None:
        REAL["os.chmod"](filename, perm)


def reference(initial, node, mode, skip_black):
    """ What a run without any fault produces (the oracle for `complete`) """
    key = initial, id(node), mode, skip_black
    if key not in REFERENCES:
        with tempfile.TemporaryDirectory(prefix="atomic_ref_") as ref_dir:
            filename = os.path.join(ref_dir, "target.py")
            if initial is not None:
                write_bytes(filename, initial)
            emit.file(node, filename, mode=mode, skip_black=skip_black)
            REFERENCES[key] = read_bytes(filename)
    return REFERENCES[key]


def fault_case(name, initial, mode, plan_kwargs, node=CLASS_NODE, skip_black=False, perm=None, must_fire=True):
    """
    One `emit.file` call with a fault injected; checks the guarantee

    :param initial: bytes of the existing file, None for a missing file
    """
    global PLAN
    complete = reference(initial, node, mode, skip_black)
    with tempfile.TemporaryDirectory(prefix="atomic_demo_") as workdir:
        filename = os.path.join(workdir, "target.py")
        bystander = os.path.join(workdir, "bystander.py")
        write_bytes(bystander, b"y = 2\n")
        if initial is not None:
            write_bytes(filename, initial, perm)
        before_names = set(os.listdir(workdir))
        before_perm = stat.S_IMODE(os.stat(filename).st_mode) if initial is not None else None

        plan = Plan(workdir, **plan_kwargs)
        raised = None
        install()
        PLAN = plan
        try:
            emit.file(node, filename, mode=mode, skip_black=skip_black)
        except BaseException as e:
            raised = e
        finally:
            PLAN = None
            uninstall()

        after = read_bytes(filename)
        after_names = set(os.listdir(workdir))
        problems = []
        if raised is None:
            if after != complete:
                problems.append("returned normally but the content is not the complete new content")
        else:
            if raised is not plan.exc:
                problems.append("unexpected exception {!r}".format(raised))
            if after != initial and after != complete:
                problems.append(
                    "target is neither as before ({}) nor complete ({} bytes): {}".format(
                        "absent" if initial is None else "{} bytes".format(len(initial)),
                        len(complete),
                        "absent" if after is None else "{} bytes".format(len(after)),
                    )
                )
        if must_fire and not plan.fired:
            problems.append("the fault was never reached")
        if plan.fired and raised is None:
            problems.append("the injected exception was swallowed")
        strays = after_names - before_names - {"target.py"}
        if strays:
            problems.append("stray files left behind: {}".format(sorted(strays)))
        if before_names - after_names:
            problems.append("files vanished: {}".format(sorted(before_names - after_names)))
        if read_bytes(bystander) != b"y = 2\n":
            problems.append("an unrelated file was modified")
        if initial is not None and after is not None:
            if stat.S_IMODE(os.stat(filename).st_mode) != before_perm:
                problems.append("permission bits changed")
        record(
            not problems, "{}  [fault {}]".format(name, "reached" if plan.fired else "not reached"), "; ".join(problems)
        )


def render_error_case(name, initial, mode, how):
    """ An error whilst rendering / formatting: nothing may have been opened for writing, nothing changed """
    global PLAN
    with tempfile.TemporaryDirectory(prefix="atomic_demo_") as workdir:
        filename = os.path.join(workdir, "target.py")
        if initial is not None:
            write_bytes(filename, initial)
        before_names = set(os.listdir(workdir))
        plan = Plan(workdir)
        boom = RuntimeError("rendering failed (injected)")
        real_format_str, real_to_code = emit.format_str, emit.to_code
        node, skip_black, expect = CLASS_NODE, False, None

        def _raise(*args, **kwargs):
            raise boom

        if how == "format_str":
            emit.format_str = _raise
            expect = RuntimeError
        elif how == "to_code":
            emit.to_code = _raise
            skip_black, expect = True, RuntimeError
        elif how == "invalid_src":  # black refuses what was rendered
            emit.to_code = lambda *args, **kwargs: "def (:\n"
            expect = Exception
        elif how == "bad_node":  # the renderer chokes on the node itself
            node = ast.ClassDef(
                name="A", bases=[], keywords=[], body=[object()], decorator_list=[], lineno=1, col_offset=0
            )
            expect = Exception
        raised = None
        install()
        PLAN = plan
        try:
            emit.file(node, filename, mode=mode, skip_black=skip_black)
        except Exception as e:
            raised = e
        finally:
            PLAN = None
            uninstall()
            emit.format_str, emit.to_code = real_format_str, real_to_code
        problems = []
        if raised is None or not isinstance(raised, expect):
            problems.append("expected {} got {!r}".format(expect.__name__, raised))
        if plan.opened_for_write:
            problems.append("opened for writing before rendering was done: {}".format(plan.opened_for_write))
        if read_bytes(filename) != initial:
            problems.append("target changed")
        if set(os.listdir(workdir)) != before_names:
            problems.append("directory content changed: {}".format(sorted(os.listdir(workdir))))
        record(not problems, name, "; ".join(problems))


def regression(name):
    """ Decorator: run a regression check in a fresh directory, an exception / AssertionError is a failure """

    def _wrap(func):
        with tempfile.TemporaryDirectory(prefix="atomic_demo_") as workdir:
            cwd = os.getcwd()
            try:
                func(workdir)
                strays = [n for n in os.listdir(workdir) if ".tmp" in n or n.startswith(".")]
                assert not strays, "stray files {}".format(strays)
                record(True, name)
            except BaseException as e:
                record(False, name, "".join(traceback.format_exception_only(type(e), e)).strip())
            finally:
                os.chdir(cwd)
        return func

    return _wrap


# --------------------------------------------------------------------------------------------------------------------
# The cases
# --------------------------------------------------------------------------------------------------------------------

EXISTING = {
    "missing": None,
    "empty": b"",
    "newline_end": b'"""Module"""\n\nimport os\n\nx = 1\n',
    "no_newline_end": b'"""Module"""\n\nimport os\n\nx = 1',
    "crlf": b"import os\r\n\r\nx = 1\r\n",
    "utf8": 'NAME = "café ☃"\n'.encode("utf-8"),
    "large": b"".join(b"v%d = %d\n" % (i, i) for i in range(30000)),  # bigger than any io buffer
}


def main():
    """ Run all the cases, print the verdict """
    os.umask(0o022)

    # 1. Write errors (disk full) at different points, every mode, existing and missing files
    for mode in "wt", "w", "a", "at":
        for state in "missing", "empty", "newline_end", "no_newline_end", "crlf", "utf8", "large":
            initial = EXISTING[state]
            for fail_after in 0, 1, 7, 150:
                fault_case(
                    "write fault: mode={!r:5} file={:14} fails after {:3} bytes".format(mode, state, fail_after),
                    initial,
                    mode,
                    dict(fail_after=fail_after),
                )
            if initial:
                # dies in the middle of the new source, after the old content went through (append implementations
                # which write the new part only are not reached by this one, hence must_fire=False)
                fault_case(
                    "write fault: mode={!r:5} file={:14} fails in the new source".format(mode, state),
                    initial,
                    mode,
                    dict(fail_after=len(initial) + 200),
                    must_fire=False,
                )

    # 2. Interrupted process: KeyboardInterrupt / SystemExit / MemoryError in the middle of the write
    for mode in "wt", "a":
        for state in "missing", "newline_end", "no_newline_end", "large":
            for exc in KeyboardInterrupt(), SystemExit(3), MemoryError():
                fault_case(
                    "interrupt  : mode={!r:5} file={:14} {}".format(mode, state, type(exc).__name__),
                    EXISTING[state],
                    mode,
                    dict(fail_after=99, exc=exc),
                )

    # 3. Everything was written, a later step fails (these steps exist in an implementation which replaces the file,
    #    one which does not get there is judged on the outcome only)
    for mode in "wt", "a":
        for state in "missing", "newline_end", "no_newline_end":
            for call in "os.fsync", "os.replace", "os.rename", "os.chmod", "os.fchmod", "shutil.copymode":
                if call not in REAL:
                    continue
                fault_case(
                    "late fault : mode={!r:5} file={:14} {} raises".format(mode, state, call),
                    EXISTING[state],
                    mode,
                    dict(break_call=call, exc=OSError(errno.EIO, "Input/output error (injected)")),
                    must_fire=False,
                    perm=0o640,
                )

    # 4. skip_black, other nodes, other permission bits
    fault_case("write fault: FunctionDef skip_black 'wt'", EXISTING["newline_end"], "wt", dict(fail_after=30),
               node=FUNC_NODE, skip_black=True, perm=0o755)
    fault_case("write fault: Module 'a' perm 0o600", EXISTING["no_newline_end"], "a", dict(fail_after=30),
               node=MODULE_NODE, perm=0o600)
    fault_case("write fault: Module 'w+' perm 0o664", EXISTING["newline_end"], "w+", dict(fail_after=30),
               node=MODULE_NODE, perm=0o664)

    # 5. Rendering / formatting errors: before anything is opened for writing
    for mode in "wt", "a":
        for state in "missing", "no_newline_end":
            for how in "format_str", "to_code", "invalid_src", "bad_node":
                render_error_case(
                    "render err : mode={!r:5} file={:14} {}".format(mode, state, how), EXISTING[state], mode, how
                )

    # 6. Regressions: what worked before the repair and must still work
    @regression("regression: missing file is created ('a' default and 'wt'), permission bits follow the umask")
    def _(workdir):
        for umask, want in (0o022, 0o644), (0o027, 0o640), (0o077, 0o600):
            old = os.umask(umask)
            try:
                for i, kwargs in enumerate((dict(), dict(mode="wt"), dict(mode="a", skip_black=True))):
                    filename = os.path.join(workdir, "new_{:o}_{}.py".format(umask, i))
                    emit.file(CLASS_NODE, filename, **kwargs)
                    assert stat.S_IMODE(os.stat(filename).st_mode) == want, oct(os.stat(filename).st_mode)
                    mod = ast.parse(read_bytes(filename).decode())
                    assert [n.name for n in mod.body] == ["ConfigClass"]
            finally:
                os.umask(old)

    @regression("regression: 'wt' overwrites, keeps permission bits of the existing file")
    def _(workdir):
        for perm in 0o755, 0o600, 0o664, 0o444 | 0o200:
            filename = os.path.join(workdir, "f_{:o}.py".format(perm))
            write_bytes(filename, b"garbage which is (not python\n" * 50, perm)
            emit.file(FUNC_NODE, filename, mode="wt")
            assert stat.S_IMODE(os.stat(filename).st_mode) == perm, oct(os.stat(filename).st_mode)
            content = read_bytes(filename).decode()
            assert "garbage" not in content and content.startswith("def train("), content[:40]

    @regression("regression: append separator logic (newline / no newline / empty / CRLF), old bytes kept as they are")
    def _(workdir):
        rendered = reference(None, FUNC_NODE, "wt", False)
        assert rendered.startswith(b"def train(") and rendered.endswith(b"\n")
        for state, sep in ("newline_end", b""), ("no_newline_end", b"\n"), ("empty", b""), ("crlf", b""), (
            "utf8",
            b"",
        ), ("large", b""):
            filename = os.path.join(workdir, state + ".py")
            write_bytes(filename, EXISTING[state])
            emit.file(FUNC_NODE, filename, mode="a")
            assert read_bytes(filename) == EXISTING[state] + sep + rendered, state
        filename = os.path.join(workdir, "cr_only.py")
        write_bytes(filename, b"x = 1\r")  # universal newlines: counts as a line end, as before
        emit.file(FUNC_NODE, filename)
        assert read_bytes(filename) == b"x = 1\r" + rendered

    @regression("regression: successive appends give one parseable module")
    def _(workdir):
        filename = os.path.join(workdir, "mod.py")
        write_bytes(filename, b"from typing import Optional")
        emit.file(CLASS_NODE, filename)
        emit.file(FUNC_NODE, filename, mode="a", skip_black=True)
        emit.file(MODULE_NODE, filename, mode="at")
        mod = ast.parse(read_bytes(filename).decode())
        assert [getattr(n, "name", None) for n in mod.body] == [
            None,
            "ConfigClass",
            "train",
            "ConfigClass",
            "train",
        ]

    @regression("regression: symbolic link stays a link, its target is rewritten")
    def _(workdir):
        os.mkdir(os.path.join(workdir, "real"))
        real = os.path.join(workdir, "real", "impl.py")
        link = os.path.join(workdir, "link.py")
        write_bytes(real, b"x = 1")
        os.symlink(os.path.join("real", "impl.py"), link)
        emit.file(FUNC_NODE, link, mode="a")
        assert os.path.islink(link) and not os.path.islink(real)
        assert read_bytes(real).startswith(b"x = 1\ndef train(")
        emit.file(FUNC_NODE, link, mode="wt")
        assert os.path.islink(link) and read_bytes(real).startswith(b"def train(")
        assert os.listdir(os.path.join(workdir, "real")) == ["impl.py"]
        dangling = os.path.join(workdir, "dangling.py")
        os.symlink(os.path.join("real", "later.py"), dangling)
        emit.file(FUNC_NODE, dangling)
        assert os.path.islink(dangling) and read_bytes(os.path.join(workdir, "real", "later.py")).startswith(b"def t")
        os.remove(link), os.remove(dangling)

    @regression("regression: relative filename without directory, and pathlib.Path")
    def _(workdir):
        os.chdir(workdir)
        emit.file(FUNC_NODE, "rel.py", mode="wt")
        emit.file(CLASS_NODE, "rel.py")
        assert [n.name for n in ast.parse(read_bytes(os.path.join(workdir, "rel.py")).decode()).body] == [
            "train",
            "ConfigClass",
        ]
        emit.file(FUNC_NODE, pathlib.Path(workdir) / "p.py", mode="wt")
        emit.file(FUNC_NODE, pathlib.Path(workdir) / "p.py", mode="a")
        assert read_bytes(os.path.join(workdir, "p.py")).count(b"def train(") == 2

    @regression("regression: skip_black differs from blacked, same AST")
    def _(workdir):
        ugly, blacked = os.path.join(workdir, "ugly.py"), os.path.join(workdir, "blacked.py")
        emit.file(CLASS_NODE, ugly, skip_black=True)
        emit.file(CLASS_NODE, blacked, skip_black=False)
        assert read_bytes(ugly) != read_bytes(blacked)
        assert ast.dump(ast.parse(read_bytes(ugly).decode())) == ast.dump(ast.parse(read_bytes(blacked).decode()))

    @regression("regression: a directory as filename raises IsADirectoryError, a missing directory FileNotFoundError")
    def _(workdir):
        os.mkdir(os.path.join(workdir, "adir"))
        for mode in "wt", "a":
            try:
                emit.file(FUNC_NODE, os.path.join(workdir, "adir"), mode=mode)
            except IsADirectoryError:
                pass
            else:
                raise AssertionError("no IsADirectoryError")
            try:
                emit.file(FUNC_NODE, os.path.join(workdir, "nodir", "f.py"), mode=mode)
            except FileNotFoundError:
                pass
            else:
                raise AssertionError("no FileNotFoundError")
        assert os.listdir(os.path.join(workdir, "adir")) == [] and sorted(os.listdir(workdir)) == ["adir"]

    @regression("regression: mode 'x' creates, refuses an existing file and leaves it alone")
    def _(workdir):
        filename = os.path.join(workdir, "x.py")
        emit.file(FUNC_NODE, filename, mode="x")
        first = read_bytes(filename)
        assert first.startswith(b"def train(")
        try:
            emit.file(CLASS_NODE, filename, mode="x")
        except FileExistsError:
            pass
        else:
            raise AssertionError("no FileExistsError")
        assert read_bytes(filename) == first and os.listdir(workdir) == ["x.py"]

    if hasattr(os, "mkfifo"):

        @regression("regression: a FIFO is written to, not replaced by a regular file")
        def _(workdir):
            fifo = os.path.join(workdir, "pipe")
            os.mkfifo(fifo)
            reader = os.open(fifo, os.O_RDONLY | os.O_NONBLOCK)
            try:
                emit.file(FUNC_NODE, fifo, mode="wt")
                assert stat.S_ISFIFO(os.stat(fifo).st_mode), "no longer a FIFO"
                assert os.read(reader, 1 << 16).startswith(b"def train(")
            finally:
                os.close(reader)
            assert os.listdir(workdir) == ["pipe"]

    if hasattr(os, "geteuid") and os.geteuid() != 0:

        @regression("regression: a read-only file is refused and unchanged")
        def _(workdir):
            filename = os.path.join(workdir, "ro.py")
            write_bytes(filename, b"x = 1\n", 0o444)
            for mode in "wt", "a":
                try:
                    emit.file(FUNC_NODE, filename, mode=mode)
                except PermissionError:
                    pass
                else:
                    raise AssertionError("no PermissionError")
            assert read_bytes(filename) == b"x = 1\n"

    failed = [r for r in RESULTS if not r[0]]
    verbose = "-v" in sys.argv
    for ok, name, detail in RESULTS:
        if verbose or not ok:
            print("{}  {}{}".format("ok  " if ok else "BAD ", name, "  -> " + detail if detail else ""))
    print("{} checks, {} failed".format(len(RESULTS), len(failed)))
    if failed:
        print("FAIL")
        return 1
    print("PASS")
    return 0


if __name__ == "__main__":
    sys.exit(main())
