"""
Demo for: `doctrans.gen.gen` must not copy the symbols of the imports found in `prepend` into
the module globals of `doctrans.gen` (nor anywhere else that outlives the call).

Run as `PYTHONPATH=<tree> /venv/bin/python demo.py`.  Prints PASS / exit 0 on the repaired tree,
FAIL / non-zero on the unchanged tree.
"""

import ast
import contextlib
import importlib
import io
import os
import sys
import tempfile
import textwrap
import traceback

try:
    import meta.asttools  # noqa: F401
except KeyError:
    pass
except ImportError:
    pass

import doctrans.gen
import doctrans.pure_utils
from doctrans.gen import gen

FAILURES = []
N_CHECKS = [0]


def check(label, cond, detail=""):
    """ Record one check """
    N_CHECKS[0] += 1
    if not cond:
        FAILURES.append("{}: {}".format(label, detail))
        print("  not ok - {} {}".format(label, detail))
    else:
        print("  ok - {}".format(label))


MAPPING_MODULE = "demo_gen_globals_mapping"

# NB: one import statement per file only: `gen` joins several without a newline (unrelated, pre-existing)
MAPPING_SRC = textwrap.dedent(
    '''
    """ Mapping module for the demo (unannotated on purpose) """

    from collections import OrderedDict


    class Foo(object):
        """
        The amazing Foo

        :cvar a: An a
        :cvar b: A b
        """

        a = 5
        b = 16


    class Bar(object):
        """
        The plain Bar

        :cvar name: A name
        """

        name = "bar"


    def adder(a=6, b=5):
        """
        Add two numbers

        :param a: first param
        :param b: second param

        :returns: the sum
        """
        return a + b


    class_map = OrderedDict((("Foo", Foo), ("Bar", Bar)))
    func_map = {"adder": adder}
    pair_list = [("Foo", Foo)]
    '''
)

IMPORTS_FILE_SRC = textwrap.dedent(
    '''
    """ File whose imports are to be copied """

    from collections import OrderedDict

    X = 5
    '''
)


def snapshot(module):
    """ Shallow snapshot of the module globals: name -> id of the object """
    return {name: id(obj) for name, obj in vars(module).items()}


def diff_snapshots(before, after):
    """ Names that were added / removed / rebound """
    return sorted(
        name
        for name in set(before) | set(after)
        if before.get(name, "<absent>") != after.get(name, "<absent>")
    )


def restore(module, pristine):
    """
    Put the module globals back to `pristine`

    :returns: names that had to be put back / removed
    """
    namespace = vars(module)
    touched = [name for name in namespace if name not in pristine] + [
        name
        for name, obj in pristine.items()
        if namespace.get(name, pristine) is not obj
    ]
    for name in [name for name in namespace if name not in pristine]:
        del namespace[name]
    namespace.update(pristine)
    return touched


def run_gen(label, expected_names, expected_kind, expected_prepend_nodes=0, **kwargs):
    """
    Run one `gen` call, then check the output module.

    :returns: whether gen ran without raising
    """
    out = io.StringIO()
    try:
        with contextlib.redirect_stdout(out), contextlib.redirect_stderr(out):
            res = gen(**kwargs)
    except Exception as e:
        check(
            label + " runs",
            False,
            "raised {}: {}".format(type(e).__name__, e),
        )
        if os.environ.get("DEMO_TRACE"):
            traceback.print_exc()
        return False
    check(label + " runs", res is None)

    with open(kwargs["output_filename"], "rt") as f:
        src = f.read()
    try:
        mod = ast.parse(src)
    except SyntaxError as e:
        check(label + " output parses", False, str(e))
        return True

    kind = {"class": ast.ClassDef, "function": ast.FunctionDef, "argparse": ast.FunctionDef}[
        expected_kind
    ]
    found = [node.name for node in mod.body if isinstance(node, kind)]
    check(
        label + " output defines " + ", ".join(expected_names),
        found == list(expected_names),
        "found {!r}".format(found),
    )
    all_assign = [
        node
        for node in mod.body
        if isinstance(node, ast.Assign)
        and getattr(node.targets[0], "id", None) == "__all__"
    ]
    check(
        label + " output __all__",
        len(all_assign) == 1
        and ast.literal_eval(all_assign[0].value) == list(expected_names),
        "got {!r}".format(all_assign and ast.dump(all_assign[0].value)),
    )
    prepend = kwargs.get("prepend")
    if prepend:
        want = [
            ast.dump(n)
            for n in ast.parse(prepend).body
            if isinstance(n, (ast.Import, ast.ImportFrom))
        ]
        got = [
            ast.dump(n) for n in mod.body if isinstance(n, (ast.Import, ast.ImportFrom))
        ]
        check(
            label + " output keeps the prepended imports",
            all(w in got for w in want) and len(want) == expected_prepend_nodes,
            "want {!r} got {!r}".format(want, got),
        )
    if kwargs.get("imports_from_file"):
        got_src = [
            ast.unparse(n) for n in mod.body if isinstance(n, (ast.Import, ast.ImportFrom))
        ]
        check(
            label + " output has the imports of imports_from_file",
            "from collections import OrderedDict" in got_src,
            "got {!r}".format(got_src),
        )
    if expected_kind == "argparse":
        fn = next(n for n in mod.body if isinstance(n, ast.FunctionDef))
        check(
            label + " output is an argparse function",
            [a.arg for a in fn.args.args] == ["argument_parser"],
        )
    return True


def main():
    """ Entry point """
    gen_before = snapshot(doctrans.gen)
    gen_pristine = dict(vars(doctrans.gen))
    pure_utils_before = snapshot(doctrans.pure_utils)
    own_names_before = {
        name: getattr(doctrans.gen, name)
        for name in (
            "emit",
            "parse",
            "ast",
            "path",
            "to_code",
            "get_module",
            "get_at_root",
            "getfile",
            "isfunction",
            "chain",
            "itemgetter",
            "set_value",
            "Module",
            "Name",
            "gen",
        )
    }

    with tempfile.TemporaryDirectory() as tempdir:
        pkg_dir = os.path.join(tempdir, "syspath")
        os.mkdir(pkg_dir)
        with open(os.path.join(pkg_dir, MAPPING_MODULE + ".py"), "wt") as f:
            f.write(MAPPING_SRC)
        imports_file = os.path.join(tempdir, "imports_src.py")
        with open(imports_file, "wt") as f:
            f.write(IMPORTS_FILE_SRC)
        sys.path.insert(0, pkg_dir)
        importlib.invalidate_caches()
        try:
            counter = [0]

            def out():
                """ Fresh output filename """
                counter[0] += 1
                return os.path.join(tempdir, "out_{:02d}.py".format(counter[0]))

            class_map = MAPPING_MODULE + ".class_map"
            func_map = MAPPING_MODULE + ".func_map"
            pair_list = MAPPING_MODULE + ".pair_list"

            # ---- regression inputs first, while the process is still clean (worked before) ----
            print("# regression, before any shadowing prepend")
            run_gen(
                "R1 class, no prepend, no imports_from_file",
                ["FooConfig", "BarConfig"],
                "class",
                name_tpl="{name}Config",
                input_mapping=class_map,
                type_="class",
                output_filename=out(),
            )
            run_gen(
                "R2 class, imports_from_file (file) without prepend",
                ["FooConfig", "BarConfig"],
                "class",
                name_tpl="{name}Config",
                input_mapping=class_map,
                type_="class",
                output_filename=out(),
                imports_from_file=imports_file,
            )
            run_gen(
                "R3 class, harmless import in prepend + imports_from_file (module name)",
                ["FooConfig", "BarConfig"],
                "class",
                expected_prepend_nodes=1,
                name_tpl="{name}Config",
                input_mapping=class_map,
                type_="class",
                output_filename=out(),
                prepend="import {}\n".format(MAPPING_MODULE),
                imports_from_file=MAPPING_MODULE,
            )
            run_gen(
                "R4 function, prepend without imports_from_file (symbols never evaluated)",
                ["adder_fn"],
                "function",
                expected_prepend_nodes=1,
                name_tpl="{name}_fn",
                input_mapping=func_map,
                type_="function",
                output_filename=out(),
                prepend="from urllib import parse\n",
            )

            # ---- the defect: shadowing prepends with imports_from_file ----
            print("# shadowing prepends (each followed by a plain call)")
            shadowing = [
                # (label, prepend, n import nodes, type_, mapping, tpl, expected names, imports_from_file)
                (
                    "D01 `from urllib import parse` / class",
                    "from urllib import parse\n",
                    1,
                    "class",
                    class_map,
                    "{name}Config",
                    ["FooConfig", "BarConfig"],
                    imports_file,
                ),
                (
                    "D02 `import json as ast` / class",
                    "import json as ast\n",
                    1,
                    "class",
                    class_map,
                    "{name}Config",
                    ["FooConfig", "BarConfig"],
                    imports_file,
                ),
                (
                    "D03 `from os import path as emit` / class",
                    "from os import path as emit\n",
                    1,
                    "class",
                    class_map,
                    "{name}Config",
                    ["FooConfig", "BarConfig"],
                    imports_file,
                ),
                (
                    "D04 `from os import sep as path` / class via module name",
                    "from os import sep as path\n",
                    1,
                    "class",
                    class_map,
                    "{name}Config",
                    ["FooConfig", "BarConfig"],
                    MAPPING_MODULE,
                ),
                (
                    "D05 `from json import dumps as to_code` / function",
                    "from json import dumps as to_code\n",
                    1,
                    "function",
                    func_map,
                    "{name}_fn",
                    ["adder_fn"],
                    imports_file,
                ),
                (
                    "D06 `from importlib import import_module as get_module` / argparse",
                    "from importlib import import_module as get_module\n",
                    1,
                    "argparse",
                    class_map,
                    "set_cli_{name}",
                    ["set_cli_Foo", "set_cli_Bar"],
                    imports_file,
                ),
                (
                    "D07 several shadowing imports at once / class from pair list",
                    "import json as emit\nimport json as parse\nfrom os import sep as Module, linesep as Name\n",
                    3,
                    "class",
                    pair_list,
                    "{name}Config",
                    ["FooConfig"],
                    imports_file,
                ),
                (
                    "D08 `from os.path import isfile as getfile, isdir as isfunction` / function",
                    "from os.path import isfile as getfile, isdir as isfunction\n",
                    1,
                    "function",
                    func_map,
                    "{name}_fn",
                    ["adder_fn"],
                    MAPPING_MODULE,
                ),
                (
                    "D09 `import json as gen` + `import json as chain` / class",
                    '""" Module docstring """\nimport json as gen\nimport json as chain\n',
                    2,
                    "class",
                    class_map,
                    "{name}Config",
                    ["FooConfig", "BarConfig"],
                    imports_file,
                ),
                (
                    "D10 `from operator import add as itemgetter, sub as set_value` / argparse",
                    "from operator import add as itemgetter, sub as set_value\n",
                    1,
                    "argparse",
                    class_map,
                    "set_cli_{name}",
                    ["set_cli_Foo", "set_cli_Bar"],
                    imports_file,
                ),
                (
                    "D11 `import json as get_at_root` with a non-import statement too / class",
                    "import json as get_at_root\nVERSION = '0.0.1'\n",
                    1,
                    "class",
                    class_map,
                    "{name}Config",
                    ["FooConfig", "BarConfig"],
                    imports_file,
                ),
                (
                    "D12 harmless new name `import json as brand_new_name_xyz` / class",
                    "import json as brand_new_name_xyz\n",
                    1,
                    "class",
                    class_map,
                    "{name}Config",
                    ["FooConfig", "BarConfig"],
                    imports_file,
                ),
            ]
            ever_changed = set()
            for (
                label,
                prepend,
                n_nodes,
                type_,
                mapping,
                tpl,
                names,
                imports_from,
            ) in shadowing:
                before = snapshot(doctrans.gen)
                run_gen(
                    label,
                    names,
                    type_,
                    expected_prepend_nodes=n_nodes,
                    name_tpl=tpl,
                    input_mapping=mapping,
                    type_=type_,
                    output_filename=out(),
                    prepend=prepend,
                    imports_from_file=imports_from,
                )
                changed = diff_snapshots(before, snapshot(doctrans.gen))
                check(
                    label + " leaves doctrans.gen globals alone",
                    not changed,
                    "changed: {!r}".format(changed),
                )
                # The NEXT call in the same process, with no prepend at all
                run_gen(
                    label + " -> next plain call",
                    ["FooConfig", "BarConfig"],
                    "class",
                    name_tpl="{name}Config",
                    input_mapping=class_map,
                    type_="class",
                    output_filename=out(),
                )
                # Make the cases independent of each other on a tree that has the defect: undo
                # whatever this case did to the module globals (a no-op on a repaired tree).
                ever_changed.update(changed)
                ever_changed.update(restore(doctrans.gen, gen_pristine))

            # ---- prepend symbols are still usable where they are needed ----
            print("# prepend symbols still resolve imports_from_file / input_mapping")
            # `alias_of_mapping` is not importable; it is only known through the prepend
            alias_label = "U1 imports_from_file + input_mapping resolved through a prepend alias"
            run_gen(
                alias_label,
                ["FooConfig", "BarConfig"],
                "class",
                expected_prepend_nodes=1,
                name_tpl="{name}Config",
                input_mapping="alias_of_mapping.class_map",
                type_="class",
                output_filename=out(),
                prepend="import {} as alias_of_mapping\n".format(MAPPING_MODULE),
                imports_from_file="alias_of_mapping",
            )
            # ... and that alias must be gone for the next call
            try:
                with contextlib.redirect_stdout(io.StringIO()):
                    gen(
                        name_tpl="{name}Config",
                        input_mapping="alias_of_mapping.class_map",
                        type_="class",
                        output_filename=out(),
                    )
            except ModuleNotFoundError:
                check("U2 the alias does not survive the call", True)
            except Exception as e:
                check(
                    "U2 the alias does not survive the call",
                    False,
                    "raised {}: {}".format(type(e).__name__, e),
                )
            else:
                check("U2 the alias does not survive the call", False, "resolved")

            # ---- whole-process state ----
            print("# state after all calls")
            changed = sorted(
                ever_changed.union(diff_snapshots(gen_before, snapshot(doctrans.gen)))
            )
            check(
                "doctrans.gen globals never changed by any call",
                not changed,
                "changed: {!r}".format(changed),
            )
            changed = diff_snapshots(pure_utils_before, snapshot(doctrans.pure_utils))
            check(
                "doctrans.pure_utils globals unchanged after all calls",
                not changed,
                "changed: {!r}".format(changed),
            )
            for name, obj in own_names_before.items():
                check(
                    "doctrans.gen.{} is still its own".format(name),
                    getattr(doctrans.gen, name, None) is obj,
                )
            check(
                "`__builtins__` of doctrans.gen untouched",
                vars(doctrans.gen).get("__builtins__") is not None
                and gen_before["__builtins__"] == id(vars(doctrans.gen)["__builtins__"]),
            )
        finally:
            sys.path.remove(pkg_dir)
            sys.modules.pop(MAPPING_MODULE, None)

    print("{} checks, {} failed".format(N_CHECKS[0], len(FAILURES)))
    if FAILURES:
        print("FAIL")
        return 1
    print("PASS")
    return 0


if __name__ == "__main__":
    sys.exit(main())
