"""
Demo for the repair of `doctrans.emitter_utils.RewriteName` (scope-aware `name` -> `self.name`).

Run as: PYTHONPATH=<tree> /venv/bin/python demo.py
Prints PASS (exit 0) on the repaired tree, FAIL (exit 1) on the unchanged tree.

Oracle, for every case: the function `f` is parsed into the IR, emitted as a class with `emit_call=True`, and then
  1. the generated source must `exec`, and `ConfigClass()()` must equal `f()` (same behaviour after re-homing);
  2. the `__call__` source must contain / must not contain the given snippets.
(The raw AST is not `compile`d: a rewritten assignment target keeps the `Load` context it always had, which the
 stable test `test_from_function_google_tf_squared_hinge_str_to_class` pins; see notes.md.)
"""
import ast
import sys
from copy import deepcopy
from textwrap import dedent

from doctrans import emit, parse
from doctrans.emitter_utils import RewriteName
from doctrans.source_transformer import to_code

DOC = '''    """doc

    :param a: the a
    :param b: the b
    """
'''

# (name, body of `def f(a=1, b=2)`, snippets required in `__call__`, snippets forbidden in `__call__`)
CASES = [
    # ---- the defect: names rebound in an inner scope
    (
        "reported input",
        """
        def inner(a):
            return a + 1
        return [b for b in range(3)], inner(10)
        """,
        ["return a + 1", "[b for b in range(3)]"],
        ["self.a + 1", "for self.b"],
    ),
    (
        "all comprehension kinds; first iterable is evaluated outside",
        """
        return (
            [a for a in range(a + 2)],
            {b for b in range(b)},
            {a: b for a, b in zip(range(a), range(b))},
            list(a * b for a in range(b) for b in range(a + 1)),
            [[a for a in range(b)] for b in range(b + 1)],
            a, b,
        )
        """,
        ["[a for a in range(self.a + 2)]", "{b for b in range(self.b)}"],
        ["for self."],
    ),
    (
        "comprehension conditions and later iterables see the targets",
        """
        return [a + b for a in range(3) if a for b in range(a) if b != a], [x + a for x in range(b)]
        """,
        ["[x + self.a for x in range(self.b)]"],
        ["for self."],
    ),
    (
        "lambda parameters, lambda defaults",
        """
        g = lambda a, *b: (a, b)
        h = lambda x=a, **a: (x, sorted(a))
        k = lambda: a + b
        return g(7, 8, 9), h(q=1), k()
        """,
        ["lambda a, *b: (a, b)", "lambda x=self.a, **a: (x, sorted(a))", "lambda: self.a + self.b"],
        ["(self.a, self.b)"],
    ),
    (
        "all parameter kinds of a nested def; defaults, annotations and decorators are outside",
        """
        def deco(n):
            return lambda fn: (lambda *args, **kw: fn(*args, **kw) + n)
        @deco(b)
        def inner(a, /, x: type(b) = b, *, b=a):
            return a + x + b
        def var(*a, **b):
            return len(a) + len(b)
        return inner(100), var(1, 2, k=3), a, b
        """,
        ["@deco(self.b)", "def inner(a, /, x: type(self.b)=self.b, *, b=self.a)", "return a + x + b"],
        ["len(self.a)"],
    ),
    (
        "assignment in a nested def makes a local; sibling keeps seeing the parameter",
        """
        def local():
            a = 10
            a += 1
            return a
        def free():
            return a + b
        def late():
            r = b
            for r in range(2):
                pass
            with open(__file__) as b2:
                pass
            return r
        return local(), free(), late(), a
        """,
        ["a = 10", "a += 1", "return self.a + self.b", "r = self.b"],
        ["self.a = 10", "self.a += 1"],
    ),
    (
        "for / with / except / import / del / walrus bind in the nested def",
        """
        def inner():
            for a in range(3):
                pass
            try:
                raise ValueError(5)
            except ValueError as b:
                r = b.args[0]
            return a, r
        def imports():
            import os.path as a
            import string, os.path
            from textwrap import dedent as b
            return a.basename('x/y'), b(' z')
        def walrus():
            return [(a := x) for x in range(4)], a
        def deleted():
            b = 1
            del b
            return 5
        return inner(), imports(), walrus(), deleted(), a, b
        """,
        ["for a in range(3)", "except ValueError as b", "r = b.args[0]", "(a := x) for x in range(4)], a"],
        ["self.a.basename", "self.b(", "self.b.args", "del self.b"],
    ),
    (
        "global declaration in a nested def",
        """
        def setter():
            global a
            a = 40
            def deeper():
                return a + 1
            return deeper()
        return setter(), a
        """,
        ["global a", "a = 40", "return a + 1", "return (setter(), self.a)"],
        ["self.a = 40", "self.a + 1"],
    ),
    (
        "nonlocal of the parameter is a reference to it (semantic option)",
        """
        def bump():
            nonlocal a
            a += 1
            return a
        def both():
            nonlocal a, b
            a, b = b, a
        def through():
            def deeper():
                nonlocal b
                b *= 10
            deeper()
        bump(); bump(); both(); through()
        return a, b
        """,
        ["self.a += 1", "self.a, self.b = (self.b, self.a)", "self.b *= 10", "pass"],
        ["nonlocal"],
    ),
    (
        "nonlocal which resolves to an intermediate function stays",
        """
        c = 5
        def mid():
            a = 100
            def deeper():
                nonlocal a, c
                a += 1
                c = b
            deeper()
            return a
        return mid(), a, c
        """,
        ["nonlocal a, c", "a += 1", "c = self.b", "return (mid(), self.a, c)"],
        ["self.a += 1", "self.a = 100"],
    ),
    (
        "names of an enclosing nested def are shadowed in the defs nested in it",
        """
        def outer(a):
            def middle():
                def innermost():
                    return a, b
                return innermost()
            return middle()
        return outer('shadow'), a
        """,
        ["return (a, self.b)"],
        ["return (self.a, self.b)"],
    ),
    (
        "class body is a scope of its own, which its methods do not see",
        """
        class C(type(a)):
            a = 7
            c = a + 1
            lst = [a for _ in range(2)]
            def m(this):
                return a, b
            def n(this, a):
                return a
        class D:
            x = a
            b = b + 40 if False else 3
        return C.a, C.c, C.lst, C().m(), C().n(9), D.x, a, b
        """,
        ["class C(type(self.a))", "a = 7", "c = a + 1", "lst = [self.a for _ in range(2)]", "return (self.a, self.b)",
         "x = self.a"],
        ["self.a = 7", "c = self.a + 1"],
    ),
    (
        "regression: assignments to the parameters at the top level of the carried body",
        """
        a = 5
        a += 1
        b: int = a * 2
        for a in range(b, b + 3):
            pass
        a, (b, c) = b, (a, 0)
        d = [a, b]
        with open(__file__) as b:
            pass
        b = b.closed
        return a, b, c, d
        """,
        ["self.a = 5", "self.a += 1", "self.b: int = self.a * 2", "for self.a in range(self.b, self.b + 3)",
         "self.a, (self.b, c) = (self.b, (self.a, 0))", "as self.b"],
        [],
    ),
    (
        "async def and match captures",
        """
        import asyncio
        async def co(a):
            return [b async for b in agen(a)]
        async def agen(b):
            for i in range(b):
                yield i + a
        def m(v):
            match v:
                case [a, *b]:
                    return a, b
                case {'k': a, **b}:
                    return a, b
                case str() as a:
                    return a
            return None
        return asyncio.run(co(3)), m([1, 2, 3]), m({'k': 1, 'z': 2}), m('s'), a, b
        """,
        ["[b async for b in agen(a)]", "yield (i + self.a)", "case [a, *b]", "return (a, b)"],
        ["agen(self.a)", "return (self.a, self.b)"],
    ),
    # ---- regressions: worked before, must still work
    (
        "regression: plain references",
        """
        c = dict(a=a, b=b)
        return a + b, c, str(a).zfill(b), (a, b)[a:b], -a
        """,
        ["dict(a=self.a, b=self.b)", "str(self.a).zfill(self.b)"],
        [],
    ),
    (
        "regression: free references from nested scopes",
        """
        def inner():
            return a + b
        class K:
            v = a
        return inner(), (lambda: b)(), [x * a for x in range(b)], K.v
        """,
        ["return self.a + self.b", "lambda: self.b", "[x * self.a for x in range(self.b)]", "v = self.a"],
        [],
    ),
]


def call_def(class_def):
    """The `__call__` method of the emitted class"""
    return next(
        node
        for node in class_def.body
        if isinstance(node, ast.FunctionDef) and node.name == "__call__"
    )


def call_source(class_def):
    """Source of the `__call__` method of the emitted class"""
    return to_code(call_def(class_def))


def run_case(name, body, required, forbidden):
    """Returns a list of failure messages (empty on success)"""
    failures = []
    src = "def f(a=1, b=2):\n" + DOC + dedent(body).strip("\n").replace("\n", "\n    ").join(("    ", "\n"))
    fun = ast.parse(src).body[0]
    ir = parse.function(deepcopy(fun))
    class_def = emit.class_(ir, emit_call=True)

    # 1. same behaviour
    call_src = call_source(class_def)
    try:
        expect_ns = {"__file__": __file__}
        exec(compile(src, "<f>", "exec"), expect_ns)
        expect = repr(expect_ns["f"]())
        actual_ns = {"__file__": __file__}
        exec(compile(to_code(class_def), "<ConfigClass>", "exec"), actual_ns)
        actual = repr(actual_ns["ConfigClass"]()())
        if expect != actual:
            failures.append("f() = {} but ConfigClass()() = {}".format(expect, actual))
    except Exception as e:
        failures.append("running failed: {!r}".format(e))

    # 2. text
    for snippet in required:
        if snippet not in call_src:
            failures.append("missing {!r}".format(snippet))
    for snippet in forbidden:
        if snippet in call_src:
            failures.append("unexpected {!r}".format(snippet))
    if failures:
        failures.append("__call__ is:\n" + call_src)
    return failures


def direct_cases():
    """`RewriteName` used directly; yields (name, failures)"""

    def rewrite(node_ids, source):
        return to_code(
            ast.fix_missing_locations(RewriteName(node_ids).visit(ast.parse(source).body[0]))
        ).strip()

    for name, node_ids, source, want in (
        ("direct: Return (as `_make_call_meth` does)", ("a", "b"), "return a + b * c", "return self.a + self.b * c"),
        ("direct: no name matches", ("zz",), "x = [a for a in b]", "x = [a for a in b]"),
        ("direct: empty node_ids matches every name (as before)", (), "return a + b", "return self.a + self.b"),
        ("direct: None node_ids matches every name (as before)", None, "return a(b)", "return self.a(self.b)"),
        ("direct: frozenset", frozenset("a"), "del a, b", "del self.a, b"),
        ("direct: generator in call", ["n"], "return sum(n for n in range(n))", "return sum((n for n in range(self.n)))"),
    ):
        got = rewrite(node_ids, source)
        # tolerate the unparser's optional parentheses
        ok = got.replace("((", "(").replace("))", ")") == want.replace("((", "(").replace("))", ")")
        yield name, ([] if ok else ["got {!r} want {!r}".format(got, want)])

    # an annotated assignment to an attribute is not a `simple` one
    ann = RewriteName(("a",)).visit(ast.parse("a: int = 5").body[0])
    yield "direct: AnnAssign.simple", (
        [] if (type(ann.target).__name__, ann.simple) == ("Attribute", 0) else [ast.dump(ann)]
    )
    # one instance, many statements: no state leaks from one `visit` to the next
    renamer = RewriteName(("a",))
    first = to_code(ast.fix_missing_locations(renamer.visit(ast.parse("def g(a): return a").body[0]))).strip()
    second = to_code(ast.fix_missing_locations(renamer.visit(ast.parse("return a").body[0]))).strip()
    yield "direct: instance is reusable", (
        [] if ("return a" in first and "self" not in first and second == "return self.a") else [first, second]
    )


def main():
    failed = 0
    results = [(name, run_case(name, body, req, forb)) for name, body, req, forb in CASES]
    results.extend(direct_cases())
    for name, failures in results:
        print("{:4s} {}".format("ok" if not failures else "BAD", name))
        for failure in failures:
            print("       " + failure.replace("\n", "\n       "))
        failed += bool(failures)
    print("{} of {} cases failed".format(failed, len(results)))
    print("FAIL" if failed else "PASS")
    return 1 if failed else 0


if __name__ == "__main__":
    sys.exit(main())
