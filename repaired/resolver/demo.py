"""
Demo for the repair of `doctrans.ast_utils.find_in_ast` / `annotate_ancestry`.

Run as `PYTHONPATH=<tree> /venv/bin/python demo.py`.  Prints `PASS` (exit 0) on the repaired tree and `FAIL`
(exit 1) on the unchanged tree.

The expected results do not come from doctrans: `reference_index` below is an independent resolver written directly
over `ast`.  It enumerates every (qualified path, node) pair of a module.  `find_in_ast` has to agree with it for
every path that exists (same node, by identity) and give `None` for paths that don't exist;  `annotate_ancestry`
has to give every such node exactly its qualified path as `_location`;  `RewriteAtQuery` has to replace exactly the
node at the path.
"""

try:
    import meta.asttools  # noqa: F401
except KeyError:
    pass

import ast
import random
import sys
import warnings
from copy import deepcopy
from os import path
from tempfile import TemporaryDirectory

warnings.simplefilter("ignore")

from doctrans.ast_utils import (  # noqa: E402
    RewriteAtQuery,
    annotate_ancestry,
    emit_ann_assign,
    find_in_ast,
    get_value,
)
from doctrans.source_transformer import ast_parse  # noqa: E402
from doctrans.sync_properties import sync_properties  # noqa: E402

failures = []
checks = 0


def check(condition, section, message):
    """ Record one check """
    global checks
    checks += 1
    if not condition:
        failures.append((section, message))


def attempt(section, message, fun, *args):
    """ Call, turning an exception into a failed check; gives the result or a unique sentinel """
    try:
        return fun(*args)
    except Exception as e:
        check(False, section, "{} raised {!r}".format(message, e))
        return attempt  # never equal / identical to any expected value


##########################################
# Independent reference, purely on `ast` #
##########################################

SCOPES = ast.ClassDef, ast.FunctionDef, ast.AsyncFunctionDef


def reference_index(tree):
    """
    Every (qualified path, node, function of which node is an argument or None, whether defined within a function)
    of the module, in source order.
    Qualified path: names of enclosing classes/functions, outermost first, then the own name.
    """
    found = []

    def block(stmts, prefix, in_fun):
        for st in stmts:
            if isinstance(st, SCOPES):
                found.append((prefix + [st.name], st, None, in_fun))
                if not isinstance(st, ast.ClassDef):
                    for a in st.args.args + st.args.kwonlyargs:
                        found.append((prefix + [st.name, a.arg], a, st, in_fun))
                block(
                    st.body,
                    prefix + [st.name],
                    in_fun or not isinstance(st, ast.ClassDef),
                )
            elif isinstance(st, ast.AnnAssign):
                if isinstance(st.target, ast.Name):
                    found.append((prefix + [st.target.id], st, None, in_fun))
            elif isinstance(st, ast.Assign):
                if all(isinstance(t, ast.Name) for t in st.targets):
                    for t in st.targets:
                        found.append((prefix + [t.id], st, None, in_fun))
            elif isinstance(st, ast.Try):
                block(st.body, prefix, in_fun)
                for handler in st.handlers:
                    block(handler.body, prefix, in_fun)
                block(st.orelse, prefix, in_fun)
                block(st.finalbody, prefix, in_fun)
            elif isinstance(st, (ast.If, ast.For, ast.While)):
                block(st.body, prefix, in_fun)
                block(st.orelse, prefix, in_fun)
            elif isinstance(st, ast.With):
                block(st.body, prefix, in_fun)

    block(tree.body, [], False)
    return found


def reference_resolve(index, search):
    """ First node, in source order, of which the qualified path is exactly `search`; else None """
    return next((entry for entry in index if entry[0] == list(search)), None)


def expected_default(fun, arg_node):
    """ What `find_in_ast` sets `.default` to ("exactly as today" for positional; parallel list for kw-only) """
    for idx, a in enumerate(fun.args.args):
        if a is arg_node:
            return fun.args.defaults[idx] if len(fun.args.defaults) > idx else None
    idx = fun.args.kwonlyargs.index(arg_node)
    return fun.args.kw_defaults[idx]


#####################
# Module generation #
#####################

NAMES = "A", "B", "m", "x", "p", "helper", "cfg", "run"  # small pool => names repeat across scopes


def gen_function(rng, name, depth, indent, method):
    """ Source lines of one function """
    params = ["self"] if method else []
    pool = [n for n in NAMES if n != name]
    rng.shuffle(pool)
    n_pos, n_kw = rng.randint(0, 3), rng.randint(0, 2)
    pos, kw = pool[:n_pos], pool[n_pos : n_pos + n_kw]
    n_defaults = rng.randint(0, len(pos))
    for i, p in enumerate(pos):
        default_idx = i - (len(pos) - n_defaults)
        params.append(
            "{}: int = {}".format(p, 100 + default_idx) if default_idx >= 0 else p
        )
    if kw:
        params.append("*")
        params.extend(
            "{}={}".format(k, 200 + i) if rng.random() < 0.6 else k
            for i, k in enumerate(kw)
        )
    lines = [
        "{}{}def {}({}):".format(
            indent, "async " if rng.random() < 0.1 else "", name, ", ".join(params)
        )
    ]
    body = []
    if depth < 4 and rng.random() < 0.3:
        body = gen_members(rng, depth + 1, indent + "    ", in_class=False, count=2)
    return lines + (body or [indent + "    pass"])


def gen_members(rng, depth, indent, in_class, count=None):
    """ Source lines of the members of one scope """
    lines = []
    for _ in range(count or rng.randint(2, 5)):
        kind = rng.choice(("class", "class", "def", "def", "ann", "assign", "if", "try"))
        name = rng.choice(NAMES)
        if kind == "class" and depth < 4:
            lines.append("{}class {}(object):".format(indent, name))
            lines.append('{}    """ doc of {} """'.format(indent, name))
            lines.extend(gen_members(rng, depth + 1, indent + "    ", in_class=True))
        elif kind == "def":
            lines.extend(gen_function(rng, name, depth, indent, method=in_class))
        elif kind == "ann":
            lines.append(
                "{}{}: {} = {}".format(
                    indent, name, rng.choice(("int", "str")), rng.randint(0, 9)
                )
            )
        elif kind == "assign":
            lines.append("{}{} = {}".format(indent, name, rng.randint(10, 19)))
        elif kind == "if" and depth < 4:
            lines.append("{}if True:".format(indent))
            lines.extend(
                gen_members(rng, depth + 1, indent + "    ", in_class, count=1)
            )
            lines.append("{}else:".format(indent))
            lines.extend(
                gen_members(rng, depth + 1, indent + "    ", in_class, count=1)
            )
        elif kind == "try" and depth < 4:
            lines.append("{}try:".format(indent))
            lines.extend(
                gen_members(rng, depth + 1, indent + "    ", in_class, count=1)
            )
            lines.append("{}except ImportError:".format(indent))
            lines.extend(
                gen_members(rng, depth + 1, indent + "    ", in_class, count=1)
            )
        else:
            lines.append("{}{}_{}: int = 0".format(indent, name, depth))
    return lines


def gen_module(seed):
    """ Source of one module: always has the depth-3 shape of the report, surrounded by random material """
    rng = random.Random(seed)
    lines = ['""" module {} """'.format(seed)]
    if seed % 2 == 0:  # function before the classes
        lines.append("def helper(x, y=1): pass")
    lines.extend(gen_members(rng, 1, "", in_class=False))
    lines.extend(
        (
            "class Outer{}(object):".format(seed),
            "    x: int = 1",
            "    class B(object):",
            "        x = 2",
            "        class A(object):",
            "            def m(self, p, x=5, *, k=3, j): pass",
            "        def m(self, p=7): pass",
            "    def m(self, q): pass",
        )
    )
    lines.extend(gen_members(rng, 1, "", in_class=False))
    if seed % 2 == 1:  # function after the classes
        lines.append("def helper(x, y=1): pass")
    return "\n".join(lines) + "\n"


def negative_queries(rng, index):
    """ Locations derived from existing ones, most of which do not exist; the reference decides """
    paths = [entry[0] for entry in index]
    simple = sorted({segment for p in paths for segment in p})
    out = []
    for p in paths:
        i = rng.randrange(len(p))
        out.append(p[:i] + ["nope"] + p[i + 1 :])  # one segment does not exist
        out.append(p[:i] + ["nope"] + p[i:])  # extra non-existent segment
        out.append(p + [rng.choice(simple)])  # one segment too many
        out.append([rng.choice(simple)] + p)  # rooted in the wrong place
        if len(p) > 1:
            out.append(p[:i] + p[i + 1 :])  # a segment is skipped
            out.append(p[1:])  # not from the root
            out.append([p[0], p[-1]])  # just the ends
            q = list(p)
            q[i] = rng.choice(simple)
            out.append(q)  # same shape, other name
    rng.shuffle(out)
    return out[:150]


################################
# 1. generated modules (>= 10) #
################################

N_MODULES = 30
for seed in range(N_MODULES):
    section = "generated module {}".format(seed)
    src = gen_module(seed)
    rng = random.Random(1000 + seed)

    for annotated in False, True:
        tree = ast.parse(src)
        if annotated:
            attempt(section, "annotate_ancestry", annotate_ancestry, tree)
        index = reference_index(tree)
        assert len(index) > 10 and max(len(e[0]) for e in index) >= 4

        for location, _, _, _ in index:
            _, want, fun, _ = reference_resolve(index, location)
            got = attempt(
                section, "find_in_ast({})".format(location), find_in_ast, list(location), tree
            )
            check(
                got is want,
                section,
                "find_in_ast({}, annotated={}) gave {} expected {} at line {}".format(
                    location,
                    annotated,
                    got
                    and got is not attempt
                    and (type(got).__name__, getattr(got, "lineno", None)),
                    type(want).__name__,
                    want.lineno,
                ),
            )
            if got is want and fun is not None:
                default = expected_default(fun, want)
                check(
                    getattr(got, "default", None) is default,
                    section,
                    "default of {} should be {}".format(
                        location, default and ast.dump(default)
                    ),
                )

        for location in negative_queries(rng, index):
            entry = reference_resolve(index, location)
            want = entry and entry[1]
            got = attempt(
                section, "find_in_ast({})".format(location), find_in_ast, list(location), tree
            )
            check(
                got is want,
                section,
                "find_in_ast({}, annotated={}) gave {} expected {}".format(
                    location,
                    annotated,
                    got
                    and got is not attempt
                    and (
                        type(got).__name__,
                        getattr(got, "_location", None),
                        getattr(got, "lineno", None),
                    ),
                    want and type(want).__name__,
                ),
            )

        if annotated:
            # `_location` is the full qualified path (an `a = b = 1` is at its last target, as before;
            # arguments of `async def` are not annotated, as before)
            for location, node, fun, _ in index:
                if isinstance(fun, ast.AsyncFunctionDef):
                    continue
                if isinstance(node, ast.Assign) and node.targets[-1].id != location[-1]:
                    continue
                check(
                    getattr(node, "_location", None) == location,
                    section,
                    "_location of line {} is {} expected {}".format(
                        node.lineno, getattr(node, "_location", None), location
                    ),
                )

    # RewriteAtQuery at the full location: exactly that node is replaced
    tree = ast.parse(src)
    index = reference_index(tree)
    candidates = [
        location
        for location, node, fun, in_fun in index
        if reference_resolve(index, location)[1] is node
        and (
            isinstance(node, (ast.AnnAssign, ast.Assign, ast.ClassDef))
            or isinstance(fun, ast.FunctionDef)
        )
        and len(location) >= 3
        # `RewriteAtQuery` does not descend into functions (beyond their arguments); not what this is about
        and not in_fun
        # nor is its handling of a class and a function of the same qualified name
        and sum(entry[0] == location[:-1] for entry in index) == 1
    ]
    for location in rng.sample(candidates, min(6, len(candidates))):
        got_tree, gold_tree = ast_parse(src, skip_docstring_remit=True), ast.parse(src)
        gold_index = reference_index(gold_tree)
        _, gold_node, gold_fun, _ = reference_resolve(gold_index, location)
        if gold_fun is not None:
            replacement = ast.arg(arg="replaced", annotation=ast.Name("float", ast.Load()))
            gold_node.arg, gold_node.annotation = "replaced", ast.Name("float", ast.Load())
        else:
            replacement = ast.parse("replaced: float = 0.5").body[0]
            for parent in ast.walk(gold_tree):
                for field, value in ast.iter_fields(parent):
                    if isinstance(value, list) and any(v is gold_node for v in value):
                        value[[v is gold_node for v in value].index(True)] = deepcopy(
                            replacement
                        )
        rewrite = RewriteAtQuery(search=list(location), replacement_node=replacement)
        got_tree = attempt(section, "RewriteAtQuery({})".format(location), rewrite.visit, got_tree)
        if got_tree is attempt:
            continue
        check(rewrite.replaced, section, "RewriteAtQuery({}) did not replace".format(location))
        check(
            ast.unparse(ast.fix_missing_locations(got_tree)) == ast.unparse(gold_tree),
            section,
            "RewriteAtQuery({}) replaced something else".format(location),
        )

###############################################
# 2. the inputs of the report, written by hand #
###############################################

section = "report"
tree = annotate_ancestry(ast.parse("class A:\n    class B:\n        def m(self, p): pass\n"))
m = tree.body[0].body[0].body[0]
check(m._location == ["A", "B", "m"], section, "m._location is {}".format(m._location))
check(
    m.args.args[1]._location == ["A", "B", "m", "p"],
    section,
    "p._location is {}".format(m.args.args[1]._location),
)
tree = ast.parse("def helper(x, y): pass\nclass A:\n    def m(self, p): pass\n")
check(find_in_ast(["A", "m"], tree) is tree.body[1].body[0], section, "['A','m'] after helper")
check(find_in_ast(["nope", "y"], tree) is None, section, "['nope','y'] gave helper's y")
check(find_in_ast(["helper", "y"], tree) is tree.body[0].args.args[1], section, "['helper','y']")
tree = ast.parse("class A:\n    x: int = 1\n")
check(find_in_ast(["A", "nope", "x"], tree) is None, section, "['A','nope','x'] gave A.x")
check(find_in_ast(["A", "x"], tree) is tree.body[0].body[0], section, "['A','x']")

###########################################################
# 3. regression: what worked before and must keep working #
###########################################################

section = "regression"
class_src = (
    "class C(object):\n"
    '    """ C class (mocked!) """\n'
    "    def function_name(self, dataset_name: str = 'mnist', tfds_dir: str = '~/tfds', K=None, *, z=1):\n"
    "        return 5\n"
    "class ConfigClass(object):\n"
    "    dataset_name: str = 'mnist'\n"
    "    epochs = 3\n"
    "def f(g: int, h=2): pass\n"
)
for annotated in False, True:
    # As used by `sync` and `sync_properties`: on an annotated AST.  The result must not depend on that, though.
    section = "regression" if annotated else "regression inputs, without annotate_ancestry"
    module = ast_parse(class_src, skip_annotate=not annotated)
    klass, config, f = module.body
    check(find_in_ast([], module) is module, section, "[] is the node itself")
    check(find_in_ast(["ConfigClass"], module) is config, section, "['ConfigClass']")
    check(find_in_ast(["C", "function_name"], module) is klass.body[1], section, "['C','function_name']")
    check(find_in_ast(["f", "g"], module) is f.args.args[0], section, "['f','g']")
    check(find_in_ast(["f"], module) is f, section, "['f']")
    check(find_in_ast(["ConfigClass", "dataset_name"], module) is config.body[0], section, "AnnAssign")
    check(find_in_ast(["John Galt"], module) is None, section, "['John Galt']")
    # a class (not a module) as the root: its own name is the first segment
    check(find_in_ast(["ConfigClass"], config) is config, section, "root ['ConfigClass']")
    check(find_in_ast(["ConfigClass", "dataset_name"], config) is config.body[0], section, "root attr")
    check(find_in_ast(["John Galt"], config) is None, section, "root ['John Galt']")
    check(find_in_ast(["C", "function_name"], klass) is klass.body[1], section, "root method")
    # `.default`: exactly as before the repair (index into `defaults` counted from the first argument)
    found = find_in_ast("C.function_name.dataset_name".split("."), klass)
    check(found is klass.body[1].args.args[1], section, "method arg")
    check(get_value(getattr(found, "default", None)) == "~/tfds", section, "method arg default")
    check(
        ast.unparse(emit_ann_assign(found)) == "dataset_name: str = '~/tfds'",
        section,
        "emit_ann_assign of found arg",
    )
    found = find_in_ast(["C", "function_name", "K"], klass)
    check(found is klass.body[1].args.args[3] and not hasattr(found, "default"), section, "no default")
if True:
    section = "regression"
    module = ast_parse(class_src)
    klass, config, f = module.body
    check(klass._location == ["C"] and f._location == ["f"], section, "top-level _location")
    check(klass.body[1]._location == ["C", "function_name"], section, "method _location")
    check(config.body[0]._location == ["ConfigClass", "dataset_name"], section, "AnnAssign _location")
    check(config.body[1]._location == ["ConfigClass", "epochs"], section, "Assign _location")
    check(
        [(a._location, a._idx) for a in klass.body[1].args.args + klass.body[1].args.kwonlyargs]
        == [
            (["C", "function_name", "self"], -1),
            (["C", "function_name", "dataset_name"], 0),
            (["C", "function_name", "tfds_dir"], 1),
            (["C", "function_name", "K"], 2),
            (["C", "function_name", "z"], 0),
        ],
        section,
        "arg _location and _idx",
    )
    check([(a._location, a._idx) for a in f.args.args] == [(["f", "g"], 0), (["f", "h"], 1)], section, "f args")

    rewrite = RewriteAtQuery(
        search=["C", "function_name", "dataset_name"],
        replacement_node=ast.parse("dataset_name: int = 15").body[0],
    )
    out = ast.unparse(rewrite.visit(ast_parse(class_src)))
    check(rewrite.replaced and "dataset_name: int=15" in out, section, "RewriteAtQuery method arg")
    rewrite = RewriteAtQuery(
        search=["ConfigClass", "dataset_name"],
        replacement_node=ast.parse("dataset_name: int = 15").body[0],
    )
    out = ast.unparse(rewrite.visit(ast_parse(class_src)))
    check(
        rewrite.replaced and "    dataset_name: int = 15\n    epochs = 3" in out,
        section,
        "RewriteAtQuery class attr",
    )
    rewrite = RewriteAtQuery(search=["ConfigClass"], replacement_node=ast.parse("class ConfigClass: pass").body[0])
    out = ast.unparse(rewrite.visit(ast_parse(class_src)))
    check(rewrite.replaced and out.count("dataset_name") == 1, section, "RewriteAtQuery class")

# sync_properties end to end (depth <= 2 locations).  A function that precedes the classes used to derail it.
for section, before in (
    ("regression", ""),
    ("sync_properties with a function before the class", "def before(f, g): pass\n\n"),
):
    with TemporaryDirectory() as tempdir:
        input_filename, output_filename = (
            path.join(tempdir, "in.py"),
            path.join(tempdir, "out.py"),
        )
        with open(input_filename, "wt") as fh:
            fh.write(
                "from typing import Literal\n\n" + before + "class Foo(object):\n"
                "    a: Literal['cfg'] = 'cfg'\n"
                "    def g(f: Literal['a']):\n"
                "        pass\n"
            )
        with open(output_filename, "wt") as fh:
            fh.write(
                "from typing import Literal\n\n" + before + "def f(h: Literal['b']):\n"
                "    pass\n\n"
                "class Bar(object):\n"
                "    b: Literal['x'] = 'x'\n"
            )
        attempt(
            section,
            "sync_properties",
            lambda: sync_properties(
                input_eval=False,
                input_filename=input_filename,
                input_params=("Foo.g.f", "Foo.a"),
                output_filename=output_filename,
                output_params=("f.h", "Bar.b"),
            ),
        )
        with open(output_filename, "rt") as fh:
            got = ast.unparse(ast.parse(fh.read()))
        want = ast.unparse(
            ast.parse(
                "from typing import Literal\n\n" + before + "def f(f: Literal['a']):\n"
                "    pass\n\n"
                "class Bar(object):\n"
                "    a: Literal['cfg'] = 'cfg'\n"
            )
        )
        check(got == want, section, "sync_properties gave\n{}".format(got))

################
# the verdict #
################

if failures:
    by_section = {}
    for section, message in failures:
        by_section.setdefault(section, []).append(message)
    for section, messages in by_section.items():
        print("{}: {} failed, e.g.:".format(section, len(messages)))
        for message in messages[:8]:
            print("   ", message)
    print("FAIL ({} of {} checks failed)".format(len(failures), checks))
    sys.exit(1)
print("PASS ({} checks on {} generated modules and the hand-written inputs)".format(checks, N_MODULES))
