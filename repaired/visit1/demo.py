"""
Demo for the repair of `RewriteAtQuery.visit_FunctionDef` (doctrans/ast_utils.py) and of `sync` dropping the
implementation of the function it replaces (doctrans/conformance.py).

Run as `PYTHONPATH=<tree> /venv/bin/python demo.py`; prints PASS (exit 0) on the repaired tree, FAIL (exit 1) otherwise.
"""

try:
    import meta.asttools
except KeyError:
    pass

import ast
import os
import sys
import traceback
from contextlib import redirect_stderr, redirect_stdout
from io import StringIO
from tempfile import TemporaryDirectory
from textwrap import dedent

from doctrans.__main__ import main
from doctrans.ast_utils import RewriteAtQuery
from doctrans.source_transformer import ast_parse

CLASS_TRUTH = '''
class ConfigClass(object):
    """
    Acquire things

    :cvar dataset_name: name of dataset. Defaults to "mnist"
    :cvar as_numpy: Convert to numpy ndarrays"""

    dataset_name: str = "mnist"
    as_numpy: Optional[bool] = None
'''

FUNCTION_TRUTH = '''
def fn(*, dataset_name: str = "mnist", as_numpy: Optional[bool] = None):
    """
    Acquire things

    :param dataset_name: name of dataset.

    :param as_numpy: Convert to numpy ndarrays
    """
    truth_only_statement = 1
    return truth_only_statement
'''

ARGPARSE_TRUTH = '''
def set_cli_args(argument_parser):
    """
    Set CLI arguments

    :param argument_parser: argument parser
    :type argument_parser: ```ArgumentParser```

    :returns: argument_parser
    :rtype: ```ArgumentParser```
    """
    argument_parser.description = "Acquire things"
    argument_parser.add_argument(
        "--dataset_name", type=str, help="name of dataset.", required=True, default="mnist"
    )
    argument_parser.add_argument("--as_numpy", type=bool, help="Convert to numpy ndarrays")
    return argument_parser
'''

NEW_ARGS = ["dataset_name", "as_numpy"]

results = []


def check(name):
    """
    Decorator: run the function now, record whether it raised

    :param name: name of the check
    :type name: ```str```

    :returns: decorator
    :rtype: ```Callable[[Callable[[], None]], None]```
    """

    def run(f):
        """
        :param f: the check; raises iff it does not hold
        :type f: ```Callable[[], None]```
        """
        try:
            with TemporaryDirectory() as tempdir:
                f(tempdir)
        except BaseException:
            results.append((name, False, traceback.format_exc(limit=3)))
        else:
            results.append((name, True, ""))

    return run


def write(tempdir, filename, source):
    """
    :param tempdir: directory
    :type tempdir: ```str```

    :param filename: basename
    :type filename: ```str```

    :param source: Python source
    :type source: ```str```

    :returns: full path
    :rtype: ```str```
    """
    filename = os.path.join(tempdir, filename)
    with open(filename, "wt") as f:
        f.write(dedent(source).lstrip("\n"))
    return filename


def sync(*argv):
    """
    Run `doctrans sync`

    :param argv: CLI arguments after `sync`
    :type argv: ```Tuple[str]```

    :returns: what was printed
    :rtype: ```str```
    """
    out = StringIO()
    with redirect_stdout(out), redirect_stderr(out):
        main(["sync"] + list(argv))
    return out.getvalue()


def find(module, location):
    """
    :param module: parsed module
    :type module: ```ast.Module```

    :param location: e.g., ['C', 'method']
    :type location: ```List[str]```

    :returns: The node there
    :rtype: ```ast.AST```
    """
    node = module
    for name in location:
        node = next(n for n in node.body if getattr(n, "name", None) == name)
    return node


def arg_names(function_def):
    """
    :param function_def: function
    :type function_def: ```ast.FunctionDef```

    :returns: names of all named arguments, in order
    :rtype: ```List[str]```
    """
    return [a.arg for a in function_def.args.args + function_def.args.kwonlyargs]


def implementation(function_def):
    """
    :param function_def: function
    :type function_def: ```ast.FunctionDef```

    :returns: dump of the body after the docstring
    :rtype: ```List[str]```
    """
    body = function_def.body
    if ast.get_docstring(function_def, clean=False) is not None:
        body = body[1:]
    return list(map(ast.dump, body))


def assert_function_synced(
    filename, before_source, location, first_args=(), decorators=0
):
    """
    The function at `location` of `filename` has the new interface and its old implementation; everything else
    in the file is as it was.

    :param filename: the target file, after sync
    :type filename: ```str```

    :param before_source: the source of the target before the sync
    :type before_source: ```str```

    :param location: e.g., ['C', 'method']
    :type location: ```List[str]```

    :param first_args: e.g., ('self',)
    :type first_args: ```Tuple[str]```

    :param decorators: how many decorators the function is to have (still)
    :type decorators: ```int```
    """
    before = ast.parse(dedent(before_source))
    with open(filename) as f:
        after = ast.parse(f.read())
    old, new = find(before, location), find(after, location)
    assert isinstance(new, ast.FunctionDef), type(new).__name__
    assert arg_names(new) == list(first_args) + NEW_ARGS, arg_names(new)
    docstring = ast.get_docstring(new)
    assert docstring is not None and "Acquire things" in docstring, docstring
    assert all(":param {}:".format(name) in docstring for name in NEW_ARGS), docstring
    assert "stale" not in docstring, docstring
    assert implementation(old), "demo input without a body"
    assert implementation(new) == implementation(old), (
        implementation(old),
        implementation(new),
    )
    assert len(new.decorator_list) == decorators, new.decorator_list
    assert list(map(ast.dump, new.decorator_list)) == list(
        map(ast.dump, old.decorator_list)
    )

    # Nothing else moved; exactly one definition was replaced
    def others(module):
        """
        :param module: parsed module
        :type module: ```ast.Module```

        :returns: dump of every function/class/statement but the synced function
        :rtype: ```List[str]```
        """
        holder = find(module, location[:-1])
        kept = [n for n in holder.body if n is not find(module, location)]
        dumps = []
        for n in kept:
            if (
                isinstance(n, ast.Expr)
                and isinstance(n.value, ast.Constant)
                and isinstance(n.value.value, str)
            ):
                continue  # `emit.file` re-lays-out docstrings
            for sub in ast.walk(n):
                if isinstance(sub, (ast.FunctionDef, ast.ClassDef)) and (
                    ast.get_docstring(sub, clean=False) is not None
                ):
                    sub.body = sub.body[1:] or [ast.Pass()]
            dumps.append(ast.dump(n))
        return dumps

    assert others(before) == others(after)
    assert [getattr(n, "name", None) for n in find(before, location[:-1]).body] == [
        getattr(n, "name", None) for n in find(after, location[:-1]).body
    ]


# ---------------------------------------------------------------------------------------------------------------
# The defect: a function / method target of `sync` that is stale
# ---------------------------------------------------------------------------------------------------------------


def sync_function_target(tempdir, target_source, location, **kwargs):
    """
    `sync --truth class` onto the function at `location` of `target_source`

    :param tempdir: directory
    :type tempdir: ```str```

    :param target_source: source of the target file
    :type target_source: ```str```

    :param location: e.g., ['C', 'method']
    :type location: ```List[str]```

    :param kwargs: passed on to `assert_function_synced`
    :type kwargs: ```dict```
    """
    cls = write(tempdir, "cls.py", CLASS_TRUTH)
    fn = write(tempdir, "fn.py", target_source)
    out = sync(
        "--class",
        cls,
        "--class-name",
        "ConfigClass",
        "--function",
        fn,
        "--function-name",
        ".".join(location),
        "--truth",
        "class",
    )
    assert "modified\t" in out, out
    assert_function_synced(fn, target_source, location, **kwargs)
    with open(cls) as f:
        assert f.read() == dedent(CLASS_TRUTH).lstrip("\n"), "truth was rewritten"


@check("01 the reported input: stale keyword-only function, class is the truth")
def _(tempdir):
    sync_function_target(
        tempdir,
        '''
        def fn(*, stale: str = "old"):
            """
            Old doc

            :param stale: stale thing
            """
            x = compute(stale)
            print(x)
            return x
        ''',
        ["fn"],
    )


@check("02 stale function with positional arguments")
def _(tempdir):
    sync_function_target(
        tempdir,
        '''
        def fn(stale, other_stale=5):
            """
            Old doc

            :param stale: stale thing

            :param other_stale: other stale thing
            """
            for i in range(other_stale):
                yield stale * i
        ''',
        ["fn"],
    )


@check("03 stale function without a docstring")
def _(tempdir):
    sync_function_target(
        tempdir,
        """
        def fn(a, b):
            with open(a) as f:
                return f.read() + b
        """,
        ["fn"],
    )


@check("04 stale function with decorators, which are kept with the implementation")
def _(tempdir):
    sync_function_target(
        tempdir,
        '''
        from functools import lru_cache, wraps


        @wraps(print)
        @lru_cache(maxsize=None)
        def fn(*, stale: int = 0):
            """
            :param stale: stale thing
            """
            try:
                return 1 // stale
            except ZeroDivisionError:
                raise ValueError(stale)
        ''',
        ["fn"],
        decorators=2,
    )


@check("05 stale method of a class, amid other members")
def _(tempdir):
    sync_function_target(
        tempdir,
        '''
        import os


        class C(object):
            """C doc"""

            attr = 5

            @staticmethod
            def other(x):
                return x

            def method(self, stale=1):
                """
                Old doc

                :param stale: stale thing
                """
                self.attr += stale
                return self.attr

            def last(self):
                return 1


        def method(stale=2):
            return stale
        ''',
        ["C", "method"],
        first_args=("self",),
    )


@check("06 stale classmethod")
def _(tempdir):
    sync_function_target(
        tempdir,
        '''
        class Loader:
            registry = {}

            @classmethod
            def load(cls, stale):
                """
                Old doc

                :param stale: stale thing
                """
                instance = cls()
                cls.registry[stale] = instance
                return instance
        ''',
        ["Loader", "load"],
        first_args=("cls",),
        decorators=1,
    )


@check("07 stale function between other functions which are left alone")
def _(tempdir):
    sync_function_target(
        tempdir,
        '''
        CONSTANT = "fn"


        def before(function=None):
            return function or CONSTANT


        def fn(stale):
            """
            :param stale: stale thing
            """
            return before(stale)


        def after(stale):
            def fn(stale):
                return stale
            return fn(stale)
        ''',
        ["fn"],
    )


@check("08 a function is the truth: target keeps its own body, not the truth's")
def _(tempdir):
    target_source = '''
        def fn(stale=1):
            """
            Old doc

            :param stale: stale thing
            """
            target_only_statement = stale
            return target_only_statement + 1
        '''
    truth = write(tempdir, "truth.py", FUNCTION_TRUTH)
    fn = write(tempdir, "fn.py", target_source)
    cls = os.path.join(tempdir, "created_cls.py")
    out = sync(
        "--function",
        truth,
        "--function",
        fn,
        "--function-name",
        "fn",
        "--class",
        cls,
        "--class-name",
        "ConfigClass",
        "--truth",
        "function",
    )
    assert out.count("modified\t") == 1, out
    assert_function_synced(fn, target_source, ["fn"])
    with open(fn) as f:
        assert "truth_only_statement" not in f.read()
    with open(truth) as f:
        assert f.read() == dedent(FUNCTION_TRUTH).lstrip("\n"), "truth was rewritten"


@check("09 an argparse function is the truth of a stale function")
def _(tempdir):
    target_source = '''
        def fn(*, stale: str = "old", dataset_name: int = 5):
            """
            Old doc

            :param stale: stale thing

            :param dataset_name: stale doc
            """
            if stale:
                print(dataset_name)
            return stale, dataset_name
        '''
    truth = write(tempdir, "cli.py", ARGPARSE_TRUTH)
    fn = write(tempdir, "fn.py", target_source)
    out = sync(
        "--argparse-function",
        truth,
        "--argparse-function-name",
        "set_cli_args",
        "--function",
        fn,
        "--function-name",
        "fn",
        "--truth",
        "argparse_function",
    )
    assert "modified\t" in out, out
    assert_function_synced(fn, target_source, ["fn"])


@check("10 a stale argparse function: its body is its interface and is replaced")
def _(tempdir):
    cls = write(tempdir, "cls.py", CLASS_TRUTH)
    cli = write(
        tempdir,
        "cli.py",
        '''
        def set_cli_args(argument_parser):
            """
            Set CLI arguments

            :param argument_parser: argument parser
            :type argument_parser: ```ArgumentParser```

            :returns: argument_parser
            :rtype: ```ArgumentParser```
            """
            argument_parser.description = "Stale description"
            argument_parser.add_argument("--stale", type=str, help="stale thing", default="old")
            return argument_parser


        def untouched():
            return set_cli_args
        ''',
    )
    out = sync(
        "--class",
        cls,
        "--class-name",
        "ConfigClass",
        "--argparse-function",
        cli,
        "--argparse-function-name",
        "set_cli_args",
        "--truth",
        "class",
    )
    assert "modified\t" in out, out
    with open(cli) as f:
        source = f.read()
    module = ast.parse(source)
    assert [n.name for n in module.body] == ["set_cli_args", "untouched"]
    assert "stale" not in source.lower(), source
    assert "--dataset_name" in source and "--as_numpy" in source, source
    assert "Acquire things" in source


@check("11 stale function that has only a docstring gets the emitted body")
def _(tempdir):
    cls = write(tempdir, "cls.py", CLASS_TRUTH)
    fn = write(
        tempdir,
        "fn.py",
        '''
        def fn(stale):
            """
            :param stale: stale thing
            """
        ''',
    )
    out = sync(
        "--class",
        cls,
        "--class-name",
        "ConfigClass",
        "--function",
        fn,
        "--function-name",
        "fn",
        "--truth",
        "class",
    )
    assert "modified\t" in out, out
    with open(fn) as f:
        new = find(ast.parse(f.read()), ["fn"])
    assert arg_names(new) == NEW_ARGS
    assert "stale" not in ast.get_docstring(new)


def located(source):
    """
    :param source: Python source
    :type source: ```str```

    :returns: module with `_location` on its nodes
    :rtype: ```ast.Module```
    """
    return ast_parse(dedent(source), skip_docstring_remit=True)


def a_function(name="replacement"):
    """
    :param name: its name
    :type name: ```str```

    :returns: `def name(): return 'new'`
    :rtype: ```ast.FunctionDef```
    """
    return ast.parse("def {}():\n    return 'new'".format(name)).body[0]


@check("12 RewriteAtQuery replaces the addressed FunctionDef, once")
def _(tempdir):
    module = located(
        """
        def f(a):
            return 1

        def g(a):
            return 2

        def f(a):
            return 3
        """
    )
    rewriter = RewriteAtQuery(search=["f"], replacement_node=a_function("f"))
    module = rewriter.visit(module)
    assert rewriter.replaced is True
    assert ast.unparse(module).count("return 'new'") == 1, ast.unparse(module)
    assert [ast.unparse(n.body[-1]) for n in module.body] == [
        "return 'new'",
        "return 2",
        "return 3",
    ]


@check("13 RewriteAtQuery reaches a method of a class")
def _(tempdir):
    module = located(
        """
        def method(self):
            return 0

        class C:
            def first(self):
                return 1

            def method(self):
                return 2

        class D:
            def method(self):
                return 3
        """
    )
    rewriter = RewriteAtQuery(
        search=["C", "method"], replacement_node=a_function("method")
    )
    module = rewriter.visit(module)
    assert rewriter.replaced is True
    assert [ast.unparse(n.body[-1]) for n in find(module, ["C"]).body] == [
        "return 1",
        "return 'new'",
    ]
    assert ast.unparse(module).count("return 'new'") == 1
    assert "return 0" in ast.unparse(module) and "return 3" in ast.unparse(module)


@check("14 RewriteAtQuery reaches a function defined within a function")
def _(tempdir):
    module = located(
        """
        def outer(inner):
            def inner():
                return 1
            return inner
        """
    )
    rewriter = RewriteAtQuery(
        search=["outer", "inner"], replacement_node=a_function("inner")
    )
    module = rewriter.visit(module)
    assert rewriter.replaced is True
    assert "return 'new'" in ast.unparse(module) and "return 1" not in ast.unparse(
        module
    ), ast.unparse(module)
    assert arg_names(find(module, ["outer"])) == ["inner"]


@check("15 RewriteAtQuery reaches a statement of a function body")
def _(tempdir):
    module = located(
        """
        def f(a):
            x: int = 5
            return x
        """
    )
    rewriter = RewriteAtQuery(
        search=["f", "x"], replacement_node=ast.parse("x: float = 0.5").body[0]
    )
    module = rewriter.visit(module)
    assert rewriter.replaced is True
    assert ast.unparse(module) == "def f(a):\n    x: float = 0.5\n    return x"


@check("16 RewriteAtQuery: no FunctionDef there, nothing replaced, nothing lost")
def _(tempdir):
    source = """
        def f(a):
            return 1

        class C:
            def m(self, a):
                return 2
        """
    module = located(source)
    rewriter = RewriteAtQuery(search=["C", "f"], replacement_node=a_function("f"))
    module = rewriter.visit(module)
    assert rewriter.replaced is False
    assert ast.unparse(module) == ast.unparse(ast.parse(dedent(source)))


# ---------------------------------------------------------------------------------------------------------------
# What worked before and is to keep working
# ---------------------------------------------------------------------------------------------------------------


@check("R1 argument of a method is replaced (and its default)")
def _(tempdir):
    module = located(
        """
        class C:
            def m(self, dataset_name: str = "mnist", other: int = 1):
                return dataset_name
        """
    )
    rewriter = RewriteAtQuery(
        search=["C", "m", "dataset_name"],
        replacement_node=ast.parse("dataset_name: int = 15").body[0],
    )
    module = rewriter.visit(module)
    assert rewriter.replaced is True
    assert (
        ast.unparse(find(module, ["C", "m"]).args)
        == "self, dataset_name: int=15, other: int=1"
    ), ast.unparse(find(module, ["C", "m"]).args)
    assert ast.unparse(find(module, ["C", "m"]).body[0]) == "return dataset_name"


@check("R2 keyword-only argument of a function is replaced")
def _(tempdir):
    module = located(
        """
        def f(a, *, b: str = "x"):
            return b
        """
    )
    rewriter = RewriteAtQuery(
        search=["f", "b"], replacement_node=ast.arg(arg="b", annotation=ast.Name("int", ast.Load()))
    )
    module = rewriter.visit(module)
    assert rewriter.replaced is True
    assert ast.unparse(module.body[0].args) == "a, *, b: int='x'", ast.unparse(
        module.body[0].args
    )


@check("R3 attribute of a class is replaced")
def _(tempdir):
    module = located(
        """
        class ConfigClass:
            dataset_name: str = "mnist"
            other: int = 1
        """
    )
    rewriter = RewriteAtQuery(
        search=["ConfigClass", "dataset_name"],
        replacement_node=ast.parse("dataset_name: int = 15").body[0],
    )
    module = rewriter.visit(module)
    assert rewriter.replaced is True
    assert [ast.unparse(n) for n in module.body[0].body] == [
        "dataset_name: int = 15",
        "other: int = 1",
    ]


@check("R4 `sync_properties` onto an argument of a function")
def _(tempdir):
    src = write(tempdir, "src.py", "a: int = 7\n")
    dst = write(
        tempdir,
        "dst.py",
        """
        def f(g: str = "x", h=None):
            print(g)
            return h
        """,
    )
    out = StringIO()
    with redirect_stdout(out), redirect_stderr(out):
        main(
            [
                "sync_properties",
                "--input-filename",
                src,
                "--input-param",
                "a",
                "--output-filename",
                dst,
                "--output-param",
                "f.g",
            ]
        )
    with open(dst) as f:
        new = ast.parse(f.read()).body[0]
    assert ast.unparse(new.args.args[0]) == "a: int", ast.unparse(new.args)
    assert implementation(new) == implementation(
        ast.parse("def f():\n    print(g)\n    return h").body[0]
    )


@check("R5 a stale class target is (still) rewritten, a function being the truth")
def _(tempdir):
    truth = write(tempdir, "truth.py", FUNCTION_TRUTH)
    cls = write(
        tempdir,
        "cls.py",
        '''
        class ConfigClass(object):
            """
            Old doc

            :cvar stale: stale thing"""

            stale: str = "old"
        ''',
    )
    out = sync(
        "--function",
        truth,
        "--function-name",
        "fn",
        "--class",
        cls,
        "--class-name",
        "ConfigClass",
        "--truth",
        "function",
    )
    assert "modified\t" in out, out
    with open(cls) as f:
        source = f.read()
    assert "stale" not in source and "dataset_name: str" in source, source


@check("R6 missing target file is created; target absent from its file is appended")
def _(tempdir):
    cls = write(tempdir, "cls.py", CLASS_TRUTH)
    missing = os.path.join(tempdir, "missing.py")
    other = write(tempdir, "other.py", "def unrelated():\n    return 1\n")
    sync(
        "--class",
        cls,
        "--class-name",
        "ConfigClass",
        "--function",
        missing,
        "--function",
        other,
        "--function-name",
        "fn",
        "--truth",
        "class",
    )
    for filename, names in (missing, ["fn"]), (other, ["unrelated", "fn"]):
        with open(filename) as f:
            module = ast.parse(f.read())
        assert [n.name for n in module.body] == names
        assert arg_names(find(module, ["fn"])) == NEW_ARGS


@check("R7 a function target that already conforms is not touched")
def _(tempdir):
    cls = write(tempdir, "cls.py", CLASS_TRUTH)
    fn = os.path.join(tempdir, "fn.py")
    argv = (
        "--class",
        cls,
        "--class-name",
        "ConfigClass",
        "--function",
        fn,
        "--function-name",
        "fn",
        "--truth",
        "class",
    )
    sync(*argv)  # creates it
    with open(fn) as f:
        created = f.read()
    out = sync(*argv)
    assert "modified" not in out, out
    with open(fn) as f:
        assert f.read() == created


if __name__ == "__main__":
    failed = [(name, trace) for name, ok, trace in results if not ok]
    for name, ok, _ in results:
        print("ok  " if ok else "FAIL", name)
    for name, trace in failed:
        print("\n--- {}\n{}".format(name, trace))
    print("{}/{} checks hold".format(len(results) - len(failed), len(results)))
    print("FAIL" if failed else "PASS")
    sys.exit(1 if failed else 0)
