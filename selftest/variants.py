"""
Variant catalogue for testing the checker both ways (DESIGN.md section 7).

Each variant is a set of textual edits applied to a scratch copy of /repo/doctrans (outside /repo and /verif, removed
after the run).  `expect` is either the rule that must newly fire for the listed properties ("breaking" variants: one
instance of a rule broken, still importable Python) or "silent" (behaviour-preserving refactors using an accepted
idiom: nothing new may fire and no analysis error may occur).  An edit whose `old` text is not found in the current
source makes the variant "not applicable" (reported, not failing): the catalogue tracks today's tree.
"""

B = "breaking"
N = "neutral"

VARIANTS = [
    # ------------------------------------------------------------------ DET
    dict(id="det1-set-difference-again", kind=B, props=["C07", "C12"], expect="DET-1", edits=[("parser_utils.py",
         """        for name in tuple(
            filter(lambda key: key not in target_params, other_params.keys())
        ):""",
         """        for name in other_params.keys() - target_params.keys():""")]),
    dict(id="det1-set-unpack", kind=B, props=["C07", "C12"], expect="DET-1", edits=[("parser_utils.py",
         """        for name in tuple(
            filter(lambda key: key not in target_params, other_params.keys())
        ):""",
         """        for name in {*other_params} - set(target_params):""")]),
    dict(id="det1-sorted-set-is-fine", kind=N, props=["C07", "C12"], expect="silent", edits=[("parser_utils.py",
         """        for name in tuple(
            filter(lambda key: key not in target_params, other_params.keys())
        ):""",
         """        missing = set(other_params.keys()) - set(target_params.keys())
        for name in [key for key in other_params if key in missing]:""")]),
    dict(id="det1-plain-loop", kind=N, props=["C07", "C12"], expect="silent", edits=[("parser_utils.py",
         """        for name in tuple(
            filter(lambda key: key not in target_params, other_params.keys())
        ):
            target_params[name] = other_params[name]""",
         """        for name in list(other_params):
            if name in target_params:
                continue
            target_params[name] = other_params[name]""")]),
    dict(id="det2-key-id", kind=B, props=["C12"], expect="DET-2", edits=[("gen.py",
         """                        key=lambda import_from: getattr(import_from, "module", None)
                        == "__future__",""",
         """                        key=lambda import_from: (getattr(import_from, "module", None)
                        == "__future__", id(import_from)),""")]),
    dict(id="det3-module-cache", kind=B, props=["C12"], expect="DET-3", edits=[("parse.py",
         """logger = get_logger("doctrans.parse")
""",
         """logger = get_logger("doctrans.parse")
_seen_names = []
"""), ("parse.py",
         """    found_type = get_function_type(function_def)
""",
         """    found_type = get_function_type(function_def)
    _seen_names.append(function_def.name)
""")]),
    dict(id="det3-function-attribute", kind=B, props=["C12"], expect="DET-3", edits=[("docstring_parsers.py",
         """    scanned = _scan_phase(docstring, style=style)
""",
         """    scanned = _scan_phase(docstring, style=style)
    parse_docstring.last_style = style
""")]),
    dict(id="det3-lru-cache", kind=B, props=["C12"], expect="DET-3", edits=[("docstring_parsers.py",
         """def _scan_phase(docstring, style=Style.rest):""",
         """@lru_cache(maxsize=64)
def _scan_phase(docstring, style=Style.rest):"""), ("docstring_parsers.py",
         """from functools import partial
""", """from functools import lru_cache, partial
""")]),
    dict(id="det3-lru-cache-on-str-helper", kind=N, props=["C12"], expect="silent", edits=[("pure_utils.py",
         """def sanitise(s):""",
         """@lru_cache(maxsize=None)
def sanitise(s):"""), ("pure_utils.py",
         """from functools import partial
""", """from functools import lru_cache, partial
""")]),
    # ------------------------------------------------------------------ TYPEFLOW
    dict(id="typeflow-no-int", kind=B, props=["C18"], expect="TYPEFLOW", edits=[("pure_utils.py",
         """line_length = int(environ.get("DOCTRANS_LINE_LENGTH", 100))""",
         """line_length = environ.get("DOCTRANS_LINE_LENGTH", 100)""")]),
    dict(id="typeflow-getenv-int", kind=N, props=["C18"], expect="silent", edits=[("pure_utils.py",
         """line_length = int(environ.get("DOCTRANS_LINE_LENGTH", 100))""",
         """line_length = int(environ.get("DOCTRANS_LINE_LENGTH", "100"))""")]),
    dict(id="wraplast-wrap-before-extract", kind=B, props=["C18"], expect="WRAP-LAST", edits=[("ast_utils.py",
         """    doc, _default = extract_default(_param["doc"], emit_default_doc=emit_default_doc)""",
         """    doc, _default = extract_default(fill(_param["doc"]), emit_default_doc=emit_default_doc)""")]),
    # ------------------------------------------------------------------ ALIGN
    dict(id="align-parse-pad-ten", kind=B, props=["C03", "C07"], expect="ALIGN-parse", edits=[("parse.py",
         """list(islice(cycle((None,)), diff))""", """list(islice(cycle((None,)), 10))""")]),
    dict(id="align-parse-pad-plus-one", kind=B, props=["C03", "C07"], expect="ALIGN-parse", edits=[("parse.py",
         """list(islice(cycle((None,)), diff))""", """list(islice(cycle((None,)), diff + 1))""")]),
    dict(id="align-parse-list-mult", kind=N, props=["C03", "C07"], expect="silent", edits=[("parse.py",
         """                list(islice(cycle((None,)), diff))
                + getattr(function_def.args, defaults),""",
         """                [None] * diff + getattr(function_def.args, defaults),""")]),
    dict(id="align-emit-kw-defaults-empty", kind=B, props=["C03", "C06"], expect="ALIGN-emit", edits=[("emit.py",
         """        kwonlyargs, kw_defaults, defaults = args_from_params, defaults_from_params, []""",
         """        kwonlyargs, kw_defaults, defaults = args_from_params, [], []""")]),
    dict(id="align-emit-filter-none", kind=B, props=["C03", "C06"], expect="ALIGN-emit", edits=[("emit.py",
         """        kwonlyargs, kw_defaults, defaults = [], [], defaults_from_params""",
         """        kwonlyargs, kw_defaults, defaults = [], [], list(filter(None, defaults_from_params))""")]),
    dict(id="align-emit-comprehension", kind=N, props=["C03", "C06"], expect="silent", edits=[("emit.py",
         """    defaults_from_params = list(
        map(
            lambda param: set_value(None)
            if param[1].get("default") in none_types
            else set_value(param[1].get("default")),
            params_no_kwargs,
        )
    )""",
         """    defaults_from_params = [
        set_value(None)
        if param[1].get("default") in none_types
        else set_value(param[1].get("default"))
        for param in params_no_kwargs
    ]""")]),
    # ------------------------------------------------------------------ ORDER
    dict(id="order-class-filter-doc", kind=B, props=["C02", "C06"], expect="ORDER", edits=[("emit.py",
         """                    map(param2ast, intermediate_repr["params"].items()),""",
         """                    map(param2ast, filter(lambda p: p[1].get("doc"), intermediate_repr["params"].items())),""")]),
    dict(id="order-argparse-sorted", kind=B, props=["C04", "C06"], expect="ORDER", edits=[("emit.py",
         """                                        intermediate_repr["params"].items(),
                                    )
                                )
                                if "params" in intermediate_repr""",
         """                                        sorted(intermediate_repr["params"].items()),
                                    )
                                )
                                if "params" in intermediate_repr""")]),
    dict(id="order-class-comprehension", kind=N, props=["C02", "C06"], expect="silent", edits=[("emit.py",
         """                    map(param2ast, intermediate_repr["params"].items()),""",
         """                    [param2ast(param) for param in intermediate_repr["params"].items()],""")]),
    dict(id="order-function-drop-kwarg-complement", kind=B, props=["C03", "C06"], expect="ORDER", edits=[("emit.py",
         """            kwarg=next(
                map(
                    lambda param: set_arg(param[0]),
                    filter(
                        lambda param: param[0].endswith("kwargs"),
                        intermediate_repr["params"].items(),
                    ),
                ),
                None,
            ),""", """            kwarg=None,""")]),
    # ------------------------------------------------------------------ TABLE
    dict(id="table-style-google-header", kind=B, props=["C01"], expect="TABLE-style", edits=[("emit.py",
         """                lambda param_lines: [getattr(ARG_TOKENS, docstring_format)[0]]""",
         """                lambda param_lines: ["Arguments:" if docstring_format == "google" else getattr(ARG_TOKENS, docstring_format)[0]]""")]),
    dict(id="table-style-rest-token-in-google", kind=B, props=["C01"], expect="TABLE-style", edits=[("docstring_utils.py",
         """    (":param", ":cvar", ":ivar", ":var", ":type", ":return", ":rtype"),""",
         """    (":param", ":cvar", ":ivar", ":var", ":type", ":return", ":rtype", "Args"),""")]),
    dict(id="table-style-extra-harmless-token", kind=N, props=["C01"], expect="silent", edits=[("docstring_utils.py",
         """    (":param", ":cvar", ":ivar", ":var", ":type", ":return", ":rtype"),""",
         """    (":param", ":cvar", ":ivar", ":var", ":type", ":return", ":rtype"),  # ReST field markers""")]),
    dict(id="table-cvar-ivar", kind=B, props=["C02"], expect="TABLE-cvar", edits=[("parse.py",
         """            get_docstring(class_def).replace(":cvar", ":param"), emit_default_doc=False""",
         """            get_docstring(class_def).replace(":ivar", ":param"), emit_default_doc=False""")]),
    dict(id="table-cvar-reserved-key", kind=B, props=["C02"], expect="TABLE-cvar", edits=[("parse.py",
         """            (("return_type", intermediate_repr["params"].pop("return_type")),)""",
         """            (("return_type", intermediate_repr["params"].pop("returns")),)""")]),
    dict(id="table-kind-only-self", kind=B, props=["C03"], expect="TABLE-kind", edits=[("ast_utils.py",
         """    elif function_def.args.args[0].arg in frozenset(("self", "cls")):""",
         """    elif function_def.args.args[0].arg in frozenset(("self",)):""")]),
    dict(id="table-kind-kwargs-suffix", kind=B, props=["C03"], expect="TABLE-kind", edits=[("emit.py",
         """            lambda param: not param[0].endswith("kwargs"),""",
         """            lambda param: not param[0].endswith("kwds"),""")]),
    dict(id="table-argparse-keyword-renamed", kind=B, props=["C04"], expect="TABLE-argparse", edits=[("ast_utils.py",
         """                            arg="help",""", """                            arg="description",""")]),
    dict(id="table-argparse-extra-constant-keyword", kind=N, props=["C04", "C16"], expect="silent", edits=[("ast_utils.py",
         """            expr=None,
            expr_func=None,
        )
    )


# def _parse_out_default""", """            expr=None,
            expr_func=None,
            lineno=None,
        )
    )


# def _parse_out_default""")]),
    dict(id="table-argparse-recogniser-loose", kind=B, props=["C04", "C16"], expect="TABLE-argparse", edits=[("ast_utils.py",
         """        and node.value.func.attr == "add_argument"
        and isinstance(node.value.func.value, Name)
        and node.value.func.value.id == "argument_parser"
    )""", """        and node.value.func.attr == "add_argument"
        and isinstance(node.value.func.value, Name)
    )""")]),
    dict(id="table-announce-b-own-sentence", kind=B, props=["C08"], expect="TABLE-announce", edits=[("defaults_utils.py",
         """    has_defaults = extract_default(_param["doc"], emit_default_doc=True)[1] is not None""",
         """    has_defaults = "Default value" in _param["doc"]""")]),
    dict(id="table-announce-c-bare-word", kind=B, props=["C17"], expect="TABLE-announce", edits=[("defaults_utils.py",
         """    has_defaults = extract_default(_param["doc"], emit_default_doc=True)[1] is not None""",
         """    has_defaults = "Defaults" in _param["doc"] or "defaults" in _param["doc"]""")]),
    dict(id="table-announce-substrings-ok", kind=N, props=["C08", "C17"], expect="silent", edits=[("defaults_utils.py",
         """    has_defaults = extract_default(_param["doc"], emit_default_doc=True)[1] is not None""",
         """    has_defaults = "Defaults to " in _param["doc"] or "defaults to " in _param["doc"]""")]),
    dict(id="table-announce-a-reader-loses-phrase", kind=B, props=["C17"], expect="TABLE-announce", edits=[("defaults_utils.py",
         """        ("defaults to ", "defaults to\\n", "Default value is ", "Default:")""",
         """        ("default is ", "Default value is ", "Default:")""")]),
    dict(id="table-announce-reorder", kind=N, props=["C08", "C17"], expect="silent", edits=[("defaults_utils.py",
         """        ("defaults to ", "defaults to\\n", "Default value is ", "Default:")""",
         """        ("Default:", "defaults to ", "defaults to\\n", "Default value is ")""")]),
    # ------------------------------------------------------------------ FALSY / STRIP-SET
    dict(id="falsy-generic-param2ast", kind=B, props=["C02", "C06"], expect="FALSY", edits=[("ast_utils.py",
         """    if "default" in _param:
        if not code_quoted(_param["default"]) or _param["default"][""",
         """    if _param.get("default"):
        if not code_quoted(_param["default"]) or _param["default"][""")]),
    dict(id="falsy-parse-out-param", kind=B, props=["C04"], expect="FALSY", edits=[("emitter_utils.py",
         """    if default is None:
        doc, default = extract_default(doc, emit_default_doc=emit_default_doc)""",
         """    if not default:
        doc, default = extract_default(doc, emit_default_doc=emit_default_doc)""")]),
    dict(id="stripset-prefix", kind=B, props=["C04"], expect="STRIP-SET", edits=[("emitter_utils.py",
         """                    (doc_lines[0].partition(",")[2],),""",
         """                    (doc_lines[0].lstrip(":returns: argument_parser,"),),""")]),
    # ------------------------------------------------------------------ NULL
    dict(id="null1-rstrip-on-none", kind=B, props=["C03"], expect="NULL-1", edits=[("emitter_utils.py",
         """                returns=(
                    param2docstring_param(
                        next(iter(intermediate_repr["returns"].items())),
                        emit_default_doc=emit_default_doc,
                    )
                    or ""
                ).rstrip(),""",
         """                returns=param2docstring_param(
                    next(iter(intermediate_repr["returns"].items())),
                    emit_default_doc=emit_default_doc,
                ).rstrip(),""")]),
    dict(id="null2-flush-pending-slot", kind=B, props=["C01", "C03"], expect="NULL-2", edits=[("docstring_parsers.py",
         """    if param[0] is not None:
        # if param['name'] == 'return_type'""", """    if param:
        # if param['name'] == 'return_type'""")]),
    dict(id="null2-truthy-name-guard", kind=N, props=["C01", "C03"], expect="silent", edits=[("docstring_parsers.py",
         """    if param[0] is not None:
        # if param['name'] == 'return_type'""", """    if param[0]:
        # if param['name'] == 'return_type'""")]),
    # ------------------------------------------------------------------ SIGCOVER
    dict(id="sigcover-kwonly-guarded-by-doc", kind=B, props=["C07"], expect="SIGCOVER", edits=[("parse.py",
         """                    for args, defaults in (
                        ("args", "defaults"),
                        ("kwonlyargs", "kw_defaults"),
                    )
                    for idx in range(len(getattr(function_def.args, args)))""",
         """                    for args, defaults in (
                        (("args", "defaults"), ("kwonlyargs", "kw_defaults"))
                        if doc_str
                        else (("args", "defaults"),)
                    )
                    for idx in range(len(getattr(function_def.args, args)))""")]),
    # ------------------------------------------------------------------ CALL / CLI
    dict(id="call-default-options-lose-name", kind=B, props=["C09", "C20"], expect="CALL", edits=[("conformance.py",
         """            "function_type": node if node is None else get_function_type(node),
            "function_name": search[-1] if len(search) else "set_cli_args",""",
         """            "function_type": node if node is None else get_function_type(node),""")]),
    dict(id="call-create-branch-without-options", kind=B, props=["C09", "C20"], expect="CALL", edits=[("conformance.py",
         """                emit_default_doc=False,  # emit_func.__name__ == "class_"
                **_default_options(node=None, search=search, type_wanted=type_wanted)()""",
         """                emit_default_doc=False,  # emit_func.__name__ == "class_\"""")]),
    dict(id="call-gen-function-type", kind=B, props=["C19", "C20"], expect="CALL", edits=[("gen.py",
         """                                "function_name": _name,
                                "function_type": "static",""",
         """                                "function_name": _name,""")]),
    dict(id="call-rename-emit-func-param", kind=N, props=["C09", "C20"], expect="silent", edits=[("conformance.py",
         """                    emit_func=emit_func,
                    replacement_node_ir=gold_ir,""",
         """                    emitter=emit_func,
                    replacement_node_ir=gold_ir,"""), ("conformance.py",
         """    search,
    emit_func,
    replacement_node_ir,
    type_wanted,
):""", """    search,
    emitter,
    replacement_node_ir,
    type_wanted,
):"""), ("conformance.py", """            emit_func(
                replacement_node_ir,
                emit_default_doc=False""", """            emitter(
                replacement_node_ir,
                emit_default_doc=False"""), ("conformance.py", """    replacement_node = emit_func(
        replacement_node_ir,""", """    replacement_node = emitter(
        replacement_node_ir,""")]),
    dict(id="cli1-option-without-parameter", kind=B, props=["C19", "C20"], expect="CLI-1", edits=[("__main__.py",
         """    gen_parser.add_argument(
        "--emit-call",""", """    gen_parser.add_argument("--dry-run", action="store_true", help="Do not write anything.")
    gen_parser.add_argument(
        "--emit-call",""")]),
    dict(id="cli2-deref-before-guard", kind=B, props=["C09", "C20"], expect="CLI-2", edits=[("conformance.py",
         """        filenames = getattr(args, pluralise(fun_name))
        if filenames is None:
            continue  # This kind was not given; `sync` needs only two of the three

        search = list(strip_split(_get_name_from_namespace(args, fun_name), "."))
""", """        search = list(strip_split(_get_name_from_namespace(args, fun_name), "."))
        filenames = getattr(args, pluralise(fun_name))
        if filenames is None:
            continue  # This kind was not given; `sync` needs only two of the three
""")]),
    dict(id="cli2-no-names-validation", kind=B, props=["C09", "C20"], expect="CLI-2", edits=[("__main__.py",
         """                getattr(args, pluralise(kind)) is not None
                and getattr(args, "{}_names".format(kind)) is None""",
         """                getattr(args, pluralise(kind)) is not None
                and getattr(args, "{}_names".format(kind)) is None
                and kind == args.truth""")]),
    dict(id="cli2-skip-with-truthiness", kind=N, props=["C09", "C20"], expect="silent", edits=[("conformance.py",
         """        if filenames is None:
            continue  # This kind was not given""", """        if not filenames:
            continue  # This kind was not given""")]),
    # ------------------------------------------------------------------ FILE
    dict(id="file1-truth-guard-removed", kind=B, props=["C10"], expect="FILE-1", edits=[("conformance.py",
         """                lambda filename: (path.realpath(path.expanduser(filename)), False)
                if path.realpath(path.expanduser(filename))
                == path.realpath(path.expanduser(truth_file))
                else _conform_filename(""", """                lambda filename: _conform_filename(""")]),
    dict(id="file1-truth-guard-by-filter", kind=N, props=["C10"], expect="silent", edits=[("conformance.py",
         """                lambda filename: (path.realpath(path.expanduser(filename)), False)
                if path.realpath(path.expanduser(filename))
                == path.realpath(path.expanduser(truth_file))
                else _conform_filename(""", """                lambda filename: _conform_filename("""), ("conformance.py",
         """                    type_wanted=type_wanted,
                ),
                filenames,
            )
        )""", """                    type_wanted=type_wanted,
                ),
                filter(
                    lambda filename: path.realpath(path.expanduser(filename))
                    != path.realpath(path.expanduser(truth_file)),
                    filenames,
                ),
            )
        )""")]),
    dict(id="file2-true-on-unchanged-path", kind=B, props=["C10"], expect="FILE-2", edits=[("conformance.py",
         """    return filename, replaced


__all__""", """    return filename, True


__all__""")]),
    dict(id="file2-write-outside-flag", kind=B, props=["C10"], expect="FILE-2", edits=[("conformance.py",
         """        if rewrite_at_query.replaced:
            emit.file(parsed_ast, filename, mode="wt", skip_black=False)""",
         """        emit.file(parsed_ast, filename, mode="wt", skip_black=False)""")]),
    dict(id="file2b-no-inequality-guard", kind=B, props=["C10"], expect="FILE-2b", edits=[("conformance.py",
         """    if not cmp_ast(
        original_node,
        ast_parse(to_code(replacement_node), skip_docstring_remit=True).body[0],
    ):""", """    if original_node is not None:""")]),
    dict(id="file2c-skip-on-weaker-condition", kind=B, props=["C09"], expect="FILE-2c", edits=[("conformance.py",
         """    replaced = False
    # Compared as it reads back from source""",
         """    if getattr(original_node, "name", None) == getattr(replacement_node, "name", None) and len(original_node.body) == len(replacement_node.body):
        return filename, False
    replaced = False
    # Compared as it reads back from source""")]),
    dict(id="file3-render-inside-open", kind=B, props=["C20"], expect="FILE-3", edits=[("emit.py",
         """    with open(filename, mode) as f:
        f.write(src)""", """    with open(filename, mode) as f:
        f.write(format_str(src, mode=Mode(line_length=119)) if skip_black else src)""")]),
    dict(id="file5-append-verbatim", kind=B, props=["C09", "C11"], expect="FILE-5", edits=[("emit.py",
         """        if existing_src and not existing_src.endswith("\\n"):
            # Appending to a last line without a newline would glue two statements together
            src = "\\n{}".format(src)""", """        del existing_src""")]),
    dict(id="file5-unconditional-newline", kind=N, props=["C09", "C11"], expect="silent", edits=[("emit.py",
         """        if existing_src and not existing_src.endswith("\\n"):
            # Appending to a last line without a newline would glue two statements together
            src = "\\n{}".format(src)""", """        if existing_src and existing_src[-1] != "\\n":
            src = "\\n" + src""")]),
    dict(id="file6-print-instead-of-error", kind=B, props=["C20"], expect="FILE-6", edits=[("__main__.py",
         """        if number_of_files < 2:
            _parser.error(""", """        if number_of_files < 2:
            print(""")]),
    dict(id="file6-gen-guard-dropped", kind=B, props=["C19", "C20"], expect="FILE-6", edits=[("__main__.py",
         """        if path.isfile(args.output_filename):
            raise IOError(""", """        if args.output_filename is None:
            raise IOError(""")]),
    dict(id="file6-exists-instead-of-isfile", kind=N, props=["C19", "C20"], expect="silent", edits=[("__main__.py",
         """        if path.isfile(args.output_filename):
            raise IOError(""", """        if path.exists(args.output_filename):
            raise IOError(""")]),
    dict(id="file7-write-in-loop", kind=B, props=["C14"], expect="FILE-7", edits=[("sync_properties.py",
         """            output_ast,
        )

    emit.file(output_ast, output_filename, mode="wt", skip_black=False)""",
         """            output_ast,
        )
        emit.file(output_ast, output_filename, mode="wt", skip_black=False)""")]),
    dict(id="file7-assert-removed", kind=B, props=["C14"], expect="FILE-7", edits=[("sync_properties.py",
         """    assert rewrite_at_query.replaced is True, "Failed to update with {!r}".format(
        to_code(replacement_node)
    )""", """    _ = rewrite_at_query.replaced""")]),
    dict(id="file7-raise-instead-of-assert", kind=N, props=["C14"], expect="silent", edits=[("sync_properties.py",
         """    assert rewrite_at_query.replaced is True, "Failed to update with {!r}".format(
        to_code(replacement_node)
    )""", """    if not rewrite_at_query.replaced:
        raise ValueError("Failed to update with {!r}".format(to_code(replacement_node)))""")]),
    dict(id="file1-input-written", kind=B, props=["C14"], expect="FILE-1", edits=[("sync_properties.py",
         """    emit.file(output_ast, output_filename, mode="wt", skip_black=False)""",
         """    emit.file(output_ast, output_filename, mode="wt", skip_black=False)
    emit.file(input_ast, input_filename, mode="wt", skip_black=False)""")]),
    # ------------------------------------------------------------------ MOD
    dict(id="mod1-pop-in-function-emitter", kind=B, props=["C13"], expect="MOD-1", edits=[("emit.py",
         """    function_name = function_name or intermediate_repr["name"]
    function_type = function_type or intermediate_repr["type"]

    args = (""", """    function_name = function_name or intermediate_repr["name"]
    function_type = function_type or intermediate_repr["type"]
    intermediate_repr["params"].pop("self", None)

    args = (""")]),
    dict(id="mod1-class-update-again", kind=B, props=["C13"], expect="MOD-1", edits=[("emit.py",
         """        intermediate_repr = dict(
            intermediate_repr,
            params=OrderedDict(
                chain(intermediate_repr["params"].items(), returns.items())
            ),
        )
        del intermediate_repr["returns"]""", """        intermediate_repr["params"].update(returns)
        del intermediate_repr["returns"]""")]),
    dict(id="mod1-deepcopy-then-mutate", kind=N, props=["C13"], expect="silent", edits=[("emit.py",
         """        intermediate_repr = dict(
            intermediate_repr,
            params=OrderedDict(
                chain(intermediate_repr["params"].items(), returns.items())
            ),
        )
        del intermediate_repr["returns"]""", """        intermediate_repr = deepcopy(intermediate_repr)
        intermediate_repr["params"].update(returns)
        del intermediate_repr["returns"]""")]),
    dict(id="mod2-rewrite-in-place", kind=B, props=["C13"], expect="MOD-2", edits=[("emit.py",
         """map(RewriteName(param_names).visit, deepcopy(internal_body)),""",
         """map(RewriteName(param_names).visit, internal_body),""")]),
    dict(id="mod3-no-deepcopy", kind=B, props=["C13"], expect="MOD-3", edits=[("parse.py",
         """    function_def = deepcopy(function_def)
    function_def.args.args = (""", """    function_def.args.args = (""")]),
    dict(id="mod5-write-into-param", kind=B, props=["C13"], expect="MOD-5", edits=[("ast_utils.py",
         """    name, _param = param[0], dict(param[1])  # a copy: the caller's IR is left as it was given
    del param
    typ, choices, required, action = (""", """    name, _param = param
    del param
    typ, choices, required, action = (""")]),
    dict(id="modf-docstring-remit-again", kind=B, props=["C11"], expect="MOD-F", edits=[("conformance.py",
         """        parsed_ast = ast_parse(
            f.read(), filename=filename, skip_docstring_remit=True
        )""", """        parsed_ast = ast_parse(f.read(), filename=filename)""")]),
    dict(id="modf-sort-body", kind=B, props=["C11"], expect="MOD-F", edits=[("ast_utils.py",
         """    node._location = [node.name] if hasattr(node, "name") else []
    parent_location = []""", """    node._location = [node.name] if hasattr(node, "name") else []
    node.body = sorted(node.body, key=lambda n: n.lineno) if hasattr(node, "body") else []
    parent_location = []""")]),
    dict(id="modf-extra-underscore-attribute", kind=N, props=["C11", "C15"], expect="silent", edits=[("ast_utils.py",
         """    node._location = [node.name] if hasattr(node, "name") else []
    parent_location = []""", """    node._location = [node.name] if hasattr(node, "name") else []
    node._annotated = True
    parent_location = []""")]),
    dict(id="modf2-no-copy", kind=B, props=["C14"], expect="MOD-F2", edits=[("sync_properties.py",
         """        replacement_node = deepcopy(
            find_in_ast(list(strip_split(input_param, ".")), input_ast)
        )""", """        replacement_node = find_in_ast(list(strip_split(input_param, ".")), input_ast)""")]),
    # ------------------------------------------------------------------ VISIT
    dict(id="visit1-new-override-returns-node", kind=B, props=["C09"], expect="VISIT-1", edits=[("ast_utils.py",
         """    def visit_FunctionDef(self, node):
        \"\"\"
        visits the `FunctionDef`, if it's the right one, replace it""", """    def visit_ClassDef(self, node):
        \"\"\" visits the `ClassDef` \"\"\"
        return node

    def visit_FunctionDef(self, node):
        \"\"\"
        visits the `FunctionDef`, if it's the right one, replace it""")]),
    dict(id="visit2-replace-many", kind=B, props=["C11", "C15"], expect="VISIT-2", edits=[("ast_utils.py",
         """        if (
            not self.replaced
            and hasattr(node, "_location")
            and node._location == self.search
        ):
            self.replaced = True
            return self.replacement_node""", """        if (
            hasattr(node, "_location")
            and node._location == self.search
        ):
            self.replaced = True
            return self.replacement_node""")]),
    dict(id="visit6-suffix-match", kind=B, props=["C11", "C15"], expect="VISIT-6", edits=[("ast_utils.py",
         """            and hasattr(node, "_location")
            and node._location == self.search
        ):
            self.replaced = True""", """            and hasattr(node, "_location")
            and node._location == self.search[-len(node._location):]
        ):
            self.replaced = True""")]),
    dict(id="visit3-descend-without-name-test", kind=B, props=["C15"], expect="VISIT-3", edits=[("ast_utils.py",
         """            elif hasattr(child_node, "name") and child_node.name == query:
                cursor = child_node.body
                break""", """            elif hasattr(child_node, "body"):
                cursor = child_node.body
                query = current_search.pop(0) if current_search else query
                break""")]),
    dict(id="visit4-constant-location", kind=B, props=["C11", "C15"], expect="VISIT-4", edits=[("ast_utils.py",
         """                child_node._location = parent_location + [get_value(child_node)]""",
         """                child_node._location = name + [get_value(child_node)]""")]),
    dict(id="visit5-rename-everything", kind=B, props=["C16"], expect="VISIT-5", edits=[("emitter_utils.py",
         """            if not self.node_ids or node.id in self.node_ids
            else ast.NodeTransformer.generic_visit(self, node)""", """            if isinstance(node.ctx, Load)
            else ast.NodeTransformer.generic_visit(self, node)""")]),
    dict(id="visit5-rename-set-after-fold", kind=B, props=["C16"], expect="VISIT-5", edits=[("emit.py",
         """    param_names = frozenset(intermediate_repr["params"].keys())
    if returns:""", """    if returns:"""), ("emit.py",
         """        del intermediate_repr["returns"]

    internal_body""", """        del intermediate_repr["returns"]
    param_names = frozenset(intermediate_repr["params"].keys())

    internal_body""")]),
    # ------------------------------------------------------------------ ALL-PAIR / CTOR
    dict(id="allpair-second-append", kind=B, props=["C19"], expect="ALL-PAIR", edits=[("gen.py",
         """            or global__all__.append(name_tpl.format(name=name))""",
         """            or global__all__.append(name_tpl.format(name=name))
            or global__all__.append(name)""")]),
    dict(id="allpair-append-raw-name", kind=B, props=["C19"], expect="ALL-PAIR", edits=[("gen.py",
         """            or global__all__.append(name_tpl.format(name=name))""",
         """            or global__all__.append(name)""")]),
    dict(id="genlayout-all-first", kind=B, props=["C19"], expect="GEN-LAYOUT", edits=[("gen.py",
         """    content = "{prepend}{imports}\\n{functions_and_classes}\\n{__all}".format(""",
         """    content = "{prepend}{functions_and_classes}\\n{imports}\\n{__all}".format(""")]),
    dict(id="pairs-first-only", kind=B, props=["C14"], expect="PAIRS", edits=[("sync_properties.py",
         """    for (input_param, output_param) in zip(input_params, output_params):""",
         """    for (input_param, output_param) in zip(input_params[:1], output_params):""")]),
    dict(id="pairs-skip-same-name", kind=B, props=["C14"], expect="PAIRS", edits=[("sync_properties.py",
         """    for (input_param, output_param) in zip(input_params, output_params):
        output_ast = sync_property(""", """    for (input_param, output_param) in zip(input_params, output_params):
        if input_param == output_param:
            continue
        output_ast = sync_property(""")]),
    dict(id="ctor-functiondef-without-decorator-list", kind=B, props=["C06"], expect="CTOR", edits=[("emitter_utils.py",
         """                body=body,
                decorator_list=[],
                name="__call__",""", """                body=body,
                name="__call__",""")]),
    dict(id="ctor-reorder-keywords", kind=N, props=["C06"], expect="silent", edits=[("emitter_utils.py",
         """                body=body,
                decorator_list=[],
                name="__call__",""", """                name="__call__",
                body=body,
                decorator_list=[],""")]),
    # ------------------------------------------------------------------ round-2 rules
    dict(id="file1b-abspath-vs-realpath", kind=B, props=["C10"], expect="FILE-1b", edits=[("conformance.py",
         """                if path.realpath(path.expanduser(filename))
                == path.realpath(path.expanduser(truth_file))""",
         """                if path.abspath(path.expanduser(filename))
                == path.abspath(path.expanduser(truth_file))""")]),
    dict(id="file1b-both-via-helper", kind=N, props=["C10"], expect="silent", edits=[("conformance.py",
         """                if path.realpath(path.expanduser(filename))
                == path.realpath(path.expanduser(truth_file))""",
         """                if _canonical(filename) == _canonical(truth_file)"""), ("conformance.py",
         """def _default_options(node, search, type_wanted):""",
         """def _canonical(filename):
    \"\"\" One spelling per file \"\"\"
    return path.realpath(path.expanduser(filename))


def _default_options(node, search, type_wanted):""")]),
    dict(id="file5b-prefix-before-black", kind=B, props=["C06", "C09", "C11"], expect="FILE-5", edits=[("emit.py",
         """    src = to_code(node)
    if not skip_black:""", """    src = to_code(node)
    if mode.startswith("a") and path.isfile(filename):
        with open(filename, "rt") as f:
            existing_src = f.read()
        if existing_src and not existing_src.endswith("\\n"):
            src = "\\n{}".format(src)
    if not skip_black:"""), ("emit.py",
         """    if mode.startswith("a") and path.isfile(filename):
        with open(filename, "rt") as f:
            existing_src = f.read()
        if existing_src and not existing_src.endswith("\\n"):
            # Appending to a last line without a newline would glue two statements together
            src = "\\n{}".format(src)
    with open(filename, mode) as f:""", """    with open(filename, mode) as f:""")]),
    dict(id="file6b-gen-canonicalises-output", kind=B, props=["C19", "C20"], expect="FILE-6b", edits=[("gen.py",
         """    extra_symbols = {}
    if imports_from_file is None:""", """    extra_symbols = {}
    output_filename = path.realpath(path.expanduser(output_filename))
    if imports_from_file is None:""")]),
    dict(id="file6c-usage-error-after-work", kind=B, props=["C20"], expect="FILE-6c", edits=[("__main__.py",
         """        return args if return_args else ground_truth(args, truth_file)""",
         """        try:
            return args if return_args else ground_truth(args, truth_file)
        except KeyError as e:
            _parser.error(str(e))""")]),
    dict(id="callsib-create-branch-default-doc", kind=B, props=["C08", "C10"], expect="CALL-SIB", edits=[("conformance.py",
         """                emit_default_doc=False,  # emit_func.__name__ == "class_\"""",
         """                emit_default_doc=emit_func.__name__ == "class_",""")]),
    dict(id="typeflow-direct-sink", kind=B, props=["C18"], expect="TYPEFLOW", edits=[("emit.py",
         """                line_length=119,""", """                line_length=environ.get("DOCTRANS_LINE_LENGTH", 119),"""), ("emit.py",
         """from os import path
""", """from os import environ, path
""")]),
    dict(id="det3-scoped-flag-hoisted", kind=B, props=["C01", "C07", "C12"], expect="DET-3", edits=[("docstring_parsers.py",
         """def _parse_phase_rest(
    intermediate_repr,""", """_seen_default = [False]


def _parse_phase_rest(
    intermediate_repr,"""), ("docstring_parsers.py",
         """    param = [
        None,
        {},
    ]  # First elem is name""", """    _seen_default.append(True)
    param = [
        None,
        {},
    ]  # First elem is name""")]),
    dict(id="mod2-shallow-copy-body", kind=B, props=["C13", "C16"], expect="MOD-2", edits=[("emit.py",
         """map(RewriteName(param_names).visit, deepcopy(internal_body)),""",
         """map(RewriteName(param_names).visit, map(copy, internal_body)),"""), ("emit.py",
         """from copy import deepcopy
""", """from copy import copy, deepcopy
""")]),
    dict(id="visit4b-graft-inherits-location", kind=B, props=["C11", "C15"], expect="VISIT-4b", edits=[("ast_utils.py",
         """            self.replaced = True
            return self.replacement_node
        else:""", """            self.replaced = True
            self.replacement_node._location = node._location
            return self.replacement_node
        else:""")]),
    dict(id="escape-without-inverse", kind=B, props=["C04"], expect="TABLE-argparse", edits=[("ast_utils.py",
         """                                (fill if word_wrap else identity)(doc).replace("%", "%%")""",
         """                                (fill if word_wrap else identity)(doc.replace("\\t", "    ")).replace("%", "%%")""")]),
    dict(id="escape-with-inverse", kind=N, props=["C04"], expect="silent", edits=[("ast_utils.py",
         """                                (fill if word_wrap else identity)(doc).replace("%", "%%")""",
         """                                (fill if word_wrap else identity)(doc.replace("\\t", "<tab>")).replace("%", "%%")"""), ("emitter_utils.py",
         """                get_value(key_word.value).replace("%%", "%")""", """                get_value(key_word.value).replace("%%", "%").replace("<tab>", "\\t")""")]),
    # ------------------------------------------------------------------ round 3 additions
    dict(id="firstmatch-deque-last", kind=B, props=["C07", "C19"], expect="FIRST-MATCH", edits=[("parse.py",
         """    function_def = next(
        filter(
            lambda func: func.name == merge_inner_function,
            filter(rpartial(isinstance, FunctionDef), ast.walk(class_def)),
        ),
        None,
    )""", """    function_def = (
        [
            func
            for func in ast.walk(class_def)
            if isinstance(func, FunctionDef) and func.name == merge_inner_function
        ]
        or [None]
    )[-1]""")]),
    dict(id="firstmatch-loop-break", kind=N, props=["C07", "C19"], expect="silent", edits=[("parse.py",
         """    function_def = next(
        filter(
            lambda func: func.name == merge_inner_function,
            filter(rpartial(isinstance, FunctionDef), ast.walk(class_def)),
        ),
        None,
    )""", """    function_def = None
    for func in ast.walk(class_def):
        if isinstance(func, FunctionDef) and func.name == merge_inner_function:
            function_def = func
            break""")]),
    dict(id="firstmatch-loop-keeps-going", kind=B, props=["C07", "C19"], expect="FIRST-MATCH", edits=[("parse.py",
         """    function_def = next(
        filter(
            lambda func: func.name == merge_inner_function,
            filter(rpartial(isinstance, FunctionDef), ast.walk(class_def)),
        ),
        None,
    )""", """    function_def = None
    for func in ast.walk(class_def):
        if isinstance(func, FunctionDef) and func.name == merge_inner_function:
            function_def = func""")]),
    dict(id="modf2-replacement-from-cache", kind=B, props=["C09", "C13"], expect="MOD-F2", edits=[("conformance.py",
         """    replacement_node = emit_func(
        replacement_node_ir,
        **_default_options(node=original_node, search=search, type_wanted=type_wanted)()
    )""", """    key = emit_func.__name__, tuple(search)
    if key not in _EMITTED:
        _EMITTED[key] = emit_func(
            replacement_node_ir,
            **_default_options(node=original_node, search=search, type_wanted=type_wanted)()
        )
    replacement_node = _EMITTED[key]"""), ("conformance.py", """def _default_options(node, search, type_wanted):""", """_EMITTED = {}


def _default_options(node, search, type_wanted):""")]),
    dict(id="modf2-replacement-deepcopied", kind=N, props=["C09", "C13"], expect="silent", edits=[("conformance.py",
         """    replacement_node = emit_func(
        replacement_node_ir,
        **_default_options(node=original_node, search=search, type_wanted=type_wanted)()
    )""", """    emitted_node = emit_func(
        replacement_node_ir,
        **_default_options(node=original_node, search=search, type_wanted=type_wanted)()
    )
    replacement_node = deepcopy(emitted_node)"""), ("conformance.py", """from os import path
""", """from copy import deepcopy
from os import path
""")]),
    dict(id="det3-transformer-on-own-attribute", kind=B, props=["C12", "C09"], expect="DET-3", edits=[("ast_utils.py",
         """    def generic_visit(self, node):
        \"\"\"
        visits the `AST`, if it's the right one, replace it""", """    def again(self):
        \"\"\"
        Run the replacement over the tree seen last time

        :returns: the tree
        :rtype: ```AST```
        \"\"\"
        return self.visit(self.last_tree)

    def generic_visit(self, node):
        \"\"\"
        visits the `AST`, if it's the right one, replace it""")]),
    dict(id="file2-split-existing-file-helper", kind=N, props=["C09", "C10", "C11", "C20"], expect="silent", edits=[("conformance.py",
         """        if rewrite_at_query.replaced:
            emit.file(parsed_ast, filename, mode="wt", skip_black=False)

        replaced = rewrite_at_query.replaced

    return filename, replaced""", """        _write_back(rewrite_at_query.replaced, parsed_ast, filename)

        replaced = rewrite_at_query.replaced

    return filename, replaced


def _write_back(replaced, parsed_ast, filename):
    \"\"\"
    Write the tree back when something was replaced

    :param replaced: whether something was replaced
    :type replaced: ```bool```

    :param parsed_ast: the tree
    :type parsed_ast: ```Module```

    :param filename: where to
    :type filename: ```str```
    \"\"\"
    if replaced:
        emit.file(parsed_ast, filename, mode="wt", skip_black=False)""")]),
    dict(id="file2-helper-writes-unconditionally", kind=B, props=["C10"], expect="FILE-2", edits=[("conformance.py",
         """        if rewrite_at_query.replaced:
            emit.file(parsed_ast, filename, mode="wt", skip_black=False)

        replaced = rewrite_at_query.replaced

    return filename, replaced""", """        _write_back(parsed_ast, filename)

        replaced = rewrite_at_query.replaced

    return filename, replaced


def _write_back(parsed_ast, filename):
    \"\"\"
    Write the tree back

    :param parsed_ast: the tree
    :type parsed_ast: ```Module```

    :param filename: where to
    :type filename: ```str```
    \"\"\"
    emit.file(parsed_ast, filename, mode="wt", skip_black=False)""")]),
    dict(id="coord-lstrip-before-measuring", kind=B, props=["C17"], expect="COORD", edits=[("defaults_utils.py",
         """    sub_l = line[_end_idx:]
""", """    sub_l = line[_end_idx:].lstrip()
""")]),
    dict(id="coord-strip-after-measuring", kind=N, props=["C17"], expect="silent", edits=[("defaults_utils.py",
         """    rest_offset = _end_idx + len(default)
""", """    rest_offset = _end_idx + len(default)
    default = default.strip()
""")]),
    dict(id="coord-find-on-casefolded-copy", kind=B, props=["C17"], expect="COORD", edits=[("defaults_utils.py",
         """    rest_offset = _end_idx + len(default)
""", """    rest_offset = _end_idx + len(default)
    if line.casefold().find("default is") > -1:
        line = line[: line.casefold().replace("  ", " ").find("default is")]
""")]),
    dict(id="coord-leading-blanks-idiom", kind=N, props=["C17"], expect="silent", edits=[("defaults_utils.py",
         """    sub_l = line[_end_idx:]
""", """    lead = len(line[_end_idx:]) - len(line[_end_idx:].lstrip(" \\t"))
    _end_idx += lead - lead
    sub_l = line[_end_idx:]
    tail_end = len(sub_l.rstrip())
    sub_l = sub_l[:tail_end] + sub_l[tail_end:]
""")]),
    dict(id="alignidx-lookup-over-both-lists", kind=B, props=["C14", "C15"], expect="ALIGN-idx", edits=[("ast_utils.py",
         """                            for _arg in node.args.args
                            if _arg.arg == self.replacement_node.target.id""", """                            for _arg in node.args.args + node.args.kwonlyargs
                            if _arg.arg == self.replacement_node.target.id""")]),
    dict(id="det3-module-level-map", kind=B, props=["C12", "C07"], expect="DET-3", edits=[("parser_utils.py",
         """lstrip_typings = partial(
    lstrip_namespace, namespaces=("typing_extensions.", "typing.")
)""",
         """lstrip_typings = partial(lstrip_namespace, namespaces=map("{}.".format, ("typing_extensions", "typing")))""")]),
    dict(id="det1-announcements-frozenset-via-helper", kind=B, props=["C12"], expect="DET-1", edits=[("defaults_utils.py",
         """        ("defaults to ", "defaults to\\n", "Default value is ", "Default:")
        if default_search_announce is None""", """        _ANNOUNCE()
        if default_search_announce is None"""), ("defaults_utils.py", """def extract_default(""", """def _ANNOUNCE():
    \"\"\"
    :returns: the announcements
    :rtype: ```frozenset```
    \"\"\"
    return frozenset(("defaults to ", "defaults to\\n", "Default value is ", "Default:"))


def extract_default(""")]),
    dict(id="fwd-helper-drops-word-wrap", kind=B, props=["C02", "C08"], expect="FWD", edits=[("emit.py",
         """                                    emit_separating_tab=True,
                                    emit_default_doc=emit_default_doc,
                                    emit_types=False,
                                    word_wrap=word_wrap,
                                )""", """                                    emit_separating_tab=True,
                                    emit_default_doc=emit_default_doc,
                                    emit_types=False,
                                )""")]),
    dict(id="file1-truth-filter-only-for-own-kind", kind=B, props=["C10"], expect="FILE-1", edits=[("conformance.py",
         """                lambda filename: (path.realpath(path.expanduser(filename)), False)
                if path.realpath(path.expanduser(filename))
                == path.realpath(path.expanduser(truth_file))
                else _conform_filename(""", """                lambda filename: (path.realpath(path.expanduser(filename)), False)
                if fun_name == args.truth and path.realpath(path.expanduser(filename))
                == path.realpath(path.expanduser(truth_file))
                else _conform_filename(""")]),
    dict(id="cli2-sorted-file-lists", kind=B, props=["C09", "C20"], expect="CLI-2", edits=[("__main__.py",
         """                k: v if k == "truth" or isinstance(v, list) or v is None else [v]""",
         """                k: v if k == "truth" or v is None else sorted(v if isinstance(v, list) else [v])""")]),
    dict(id="cli2-listified-file-lists", kind=N, props=["C09", "C20"], expect="silent", edits=[("__main__.py",
         """                k: v if k == "truth" or isinstance(v, list) or v is None else [v]""",
         """                k: v if k == "truth" or v is None else (list(v) if isinstance(v, (list, tuple)) else [v])""")]),
    dict(id="kwarglast-no-pop", kind=B, props=["C07", "C03"], expect="KWARG-LAST", edits=[("parse.py",
         """        _param = intermediate_repr["params"].pop(function_def.args.kwarg.arg)""",
         """        _param = intermediate_repr["params"][function_def.args.kwarg.arg]""")]),
    dict(id="kwarglast-move-to-end-after-merge", kind=N, props=["C07", "C03"], expect="silent", edits=[("parse.py",
         """        _param = intermediate_repr["params"].pop(function_def.args.kwarg.arg)""",
         """        _param = intermediate_repr["params"][function_def.args.kwarg.arg]"""), ("parse.py",
         """    intermediate_repr["params"].update(params_to_append)
""", """    intermediate_repr["params"].update(params_to_append)
    for kwarg_name in params_to_append:
        intermediate_repr["params"].move_to_end(kwarg_name)
""")]),
    # ------------------------------------------------------------------ round 4 additions
    dict(id="strmember-missing-comma", kind=B, props=["C03", "C12"], expect="STR-MEMBER", edits=[("ast_utils.py",
         """    elif function_def.args.args[0].arg in frozenset(("self", "cls")):""",
         """    elif function_def.args.args[0].arg in ("self" "cls"):""")]),
    dict(id="strmember-tuple-is-fine", kind=N, props=["C03", "C12"], expect="silent", edits=[("ast_utils.py",
         """    elif function_def.args.args[0].arg in frozenset(("self", "cls")):""",
         """    elif function_def.args.args[0].arg in ("self", "cls"):""")]),
    dict(id="ordermerge-popitem", kind=B, props=["C07", "C08"], expect="ORDER-merge", edits=[("parser_utils.py",
         """        for name in tuple(
            filter(lambda key: key not in target_params, other_params.keys())
        ):
            target_params[name] = other_params[name]""",
         """        while other_params:
            name, other_param = other_params.popitem()
            if name not in target_params:
                target_params[name] = other_param""")]),
    dict(id="ordermerge-popitem-first", kind=N, props=["C07", "C08"], expect="silent", edits=[("parser_utils.py",
         """        for name in tuple(
            filter(lambda key: key not in target_params, other_params.keys())
        ):
            target_params[name] = other_params[name]""",
         """        remaining = OrderedDict(other_params)
        while remaining:
            name, other_param = remaining.popitem(last=False)
            if name not in target_params:
                target_params[name] = other_param""")]),
    dict(id="latebind-lambda-list", kind=B, props=["C07", "C12"], expect="LATE-BIND", edits=[("parser_utils.py",
         """        for name in tuple(
            filter(lambda key: key not in target_params, other_params.keys())
        ):
            target_params[name] = other_params[name]""",
         """        fillers = [
            lambda: target_params.__setitem__(name, other_params[name])
            for name in other_params
            if name not in target_params
        ]
        for filler in fillers:
            filler()""")]),
    dict(id="latebind-default-bound", kind=N, props=["C07", "C12"], expect="silent", edits=[("parser_utils.py",
         """        for name in tuple(
            filter(lambda key: key not in target_params, other_params.keys())
        ):
            target_params[name] = other_params[name]""",
         """        fillers = [
            lambda name=name: target_params.__setitem__(name, other_params[name])
            for name in other_params
            if name not in target_params
        ]
        for filler in fillers:
            filler()""")]),
    dict(id="shareddefault-returned", kind=B, props=["C12"], expect="SHARED-DEFAULT", edits=[("parser_utils.py",
         """def _join_non_none(primacy, other):""",
         """def _fresh_returns(returns=OrderedDict((("return_type", {}),))):
    \"\"\"
    :param returns: the skeleton
    :type returns: ```OrderedDict```

    :returns: the skeleton
    :rtype: ```OrderedDict```
    \"\"\"
    return returns


def _join_non_none(primacy, other):""")]),
    dict(id="file2b-update-mode", kind=B, props=["C09", "C11"], expect="FILE-2b", edits=[("conformance.py",
         """            emit.file(parsed_ast, filename, mode="wt", skip_black=False)""",
         """            emit.file(parsed_ast, filename, mode="r+", skip_black=False)""")]),
    dict(id="file3-render-error-swallowed", kind=B, props=["C20", "C11"], expect="FILE-3", edits=[("emit.py",
         """    src = to_code(node)
    if not skip_black:""", """    try:
        src = to_code(node)
    except RecursionError:
        pass
    if not skip_black:""")]),
    dict(id="file2d-test-on-raw-path", kind=B, props=["C09", "C10", "C11"], expect="FILE-2d", edits=[("conformance.py",
         """    filename = path.realpath(path.expanduser(filename))
""", """    is_there = path.isfile(filename)
    filename = path.realpath(path.expanduser(filename))
"""), ("conformance.py", """    if not path.isfile(filename):""", """    if not is_there:""")]),
    dict(id="file5c-read-through-append-handle", kind=B, props=["C06", "C09"], expect="FILE-5", edits=[("emit.py",
         """        with open(filename, "rt") as f:
            existing_src = f.read()""", """        with open(filename, "a+") as f:
            existing_src = f.read()""")]),
    dict(id="file5c-seek-first", kind=N, props=["C06", "C09"], expect="silent", edits=[("emit.py",
         """        with open(filename, "rt") as f:
            existing_src = f.read()""", """        with open(filename, "rt") as f:
            f.seek(0)
            existing_src = f.read()""")]),
    dict(id="latebind-helper-def-used-in-iteration", kind=N, props=["C15", "C11"], expect="silent", edits=[("ast_utils.py",
         """            if isinstance(child_node, FunctionDef):

                def set_index_and_location(idx_arg):""", """            if not isinstance(child_node, FunctionDef):
                continue
            if True:

                def set_index_and_location(idx_arg):""")]),
    # ------------------------------------------------------------------ WRAP (C18): writer / reader as inverse layouts
    dict(id="wrapbreaks-defaults-again", kind=B, props=["C18"], expect="WRAP-BREAKS", edits=[("pure_utils.py",
         """fill = partial(
    _fill, width=line_length, break_long_words=False, break_on_hyphens=False
)""", """fill = partial(_fill, width=line_length)""")]),
    dict(id="wrapbreaks-hyphens-only", kind=B, props=["C18"], expect="WRAP-BREAKS", edits=[("pure_utils.py",
         """    _fill, width=line_length, break_long_words=False, break_on_hyphens=False""",
         """    _fill, width=line_length, break_long_words=False""")]),
    dict(id="wrapbreaks-direct-call-site", kind=B, props=["C18"], expect="WRAP-BREAKS", edits=[("emitter_utils.py",
         """            indent_all_but_first(fill(s), indent_level + 1, wipe_indents=True)""",
         """            indent_all_but_first(fill(s, break_long_words=True), indent_level + 1, wipe_indents=True)""")]),
    dict(id="wrapbreaks-nested-partial", kind=N, props=["C18"], expect="silent", edits=[("pure_utils.py",
         """fill = partial(
    _fill, width=line_length, break_long_words=False, break_on_hyphens=False
)""", """_fill_at_blanks = partial(_fill, break_long_words=False, break_on_hyphens=False)
fill = partial(_fill_at_blanks, width=line_length)""")]),
    dict(id="wrapcont-fill-after-indent", kind=B, props=["C18"], expect="WRAP-CONT", edits=[("docstring_utils.py",
         """                    indent(
                        _fill(doc),
                        tab,
                    )""", """                    _fill(
                        indent(
                            doc,
                            tab,
                        )
                    )""")]),
    dict(id="wrapcont-rest-indenter-dropped", kind=B, props=["C18"], expect="WRAP-CONT", edits=[("docstring_utils.py",
         """            map(
                indent_all_but_first,
                map(
                    _fill,""", """            iter(
                map(
                    _fill,""")]),
    dict(id="wrapcont-header-wrapped", kind=B, props=["C18"], expect="WRAP-CONT", edits=[("docstring_utils.py",
         """                    (
                        (_param["typ"] if _param.get("typ") else None)
""", """                    _fill(
                        (_param["typ"] if _param.get("typ") else None)
""")]),
    dict(id="wrapcont-via-local", kind=N, props=["C18"], expect="silent", edits=[("docstring_utils.py",
         """    elif style == "numpydoc":
        return "\\n".join(""", """    elif style == "numpydoc":
        wrapped_doc = _fill(doc) if emit_doc and doc else None
        return "\\n".join("""), ("docstring_utils.py", """                    indent(
                        _fill(doc),
                        tab,
                    )""", """                    indent(wrapped_doc, tab)""")]),
    dict(id="wrapcont-via-local-emitted-raw", kind=B, props=["C18"], expect="WRAP-CONT", edits=[("docstring_utils.py",
         """    elif style == "numpydoc":
        return "\\n".join(""", """    elif style == "numpydoc":
        wrapped_doc = _fill(doc) if emit_doc and doc else None
        return "\\n".join("""), ("docstring_utils.py", """                    indent(
                        _fill(doc),
                        tab,
                    )""", """                    wrapped_doc""")]),
    dict(id="rejoin-dehyphenate", kind=B, props=["C18"], expect="REJOIN-UNIFORM", edits=[("docstring_parsers.py",
         """                " ".join(map(str.strip, _param["doc"].split("\\n")))""",
         """                "".join(line if line.endswith("-") else "{} ".format(line) for line in map(str.strip, _param["doc"].split("\\n")))""")]),
    dict(id="rejoin-no-blank", kind=B, props=["C18"], expect="REJOIN-UNIFORM", edits=[("docstring_parsers.py",
         """                " ".join(map(str.strip, _param["doc"].split("\\n")))""",
         """                "".join(map(str.strip, _param["doc"].split("\\n")))""")]),
    dict(id="rejoin-generator-form", kind=N, props=["C18"], expect="silent", edits=[("docstring_parsers.py",
         """                " ".join(map(str.strip, _param["doc"].split("\\n")))""",
         """                " ".join(line.strip() for line in _param["doc"].split("\\n"))""")]),
    dict(id="scanrejoin-late-sweep-dropped", kind=B, props=["C18"], expect="SCAN-AFTER-REJOIN", edits=[("docstring_parsers.py",
         """    if style is Style.rest:
        ir.update(""", """    if style is Style.rest and False:
        ir.update(""")]),
    dict(id="scanrejoin-late-sweep-for-google-only", kind=B, props=["C18"], expect="SCAN-AFTER-REJOIN", edits=[("docstring_parsers.py",
         """    if style is Style.rest:
        ir.update(""", """    if style is Style.google:
        ir.update(""")]),
    dict(id="scanrejoin-numpy-returns-reader-first", kind=B, props=["C18"], expect="SCAN-AFTER-REJOIN", edits=[("docstring_parsers.py",
         """                    _interpolate_defaults_and_force_future_default(
                        _set_name_and_type(
                            (
                                "return_type",
""", """                    _set_name_and_type(
                        _interpolate_defaults_and_force_future_default(
                            (
                                "return_type",
"""), ("docstring_parsers.py", """                                },
                            ),
                            infer_type=infer_type,
                            word_wrap=word_wrap,
                        ),
                    ),
                ),
            )""", """                                },
                            ),
                        ),
                        infer_type=infer_type,
                        word_wrap=word_wrap,
                    ),
                ),
            )""")]),
    dict(id="scanrejoin-late-sweep-named-helper", kind=N, props=["C18"], expect="silent", edits=[("docstring_parsers.py",
         """    if style is Style.rest:
        ir.update(
            {
                k: OrderedDict(
                    map(
                        partial(
                            interpolate_defaults, emit_default_doc=emit_default_doc
                        ),
                        ir[k].items(),
                    )
                )
                if ir[k]
                else ir[k]
                for k in ("params", "returns")
            }
        )""", """    if style is Style.rest:
        read_again = partial(interpolate_defaults, emit_default_doc=emit_default_doc)
        for k in ("params", "returns"):
            if ir[k]:
                ir[k] = OrderedDict(map(read_again, ir[k].items()))""")]),
    # ------------------------------------------------------------------ TYPE-LADDER (C17)
    dict(id="ladder-isdecimal-again", kind=B, props=["C17"], expect="TYPE-LADDER", edits=[("defaults_utils.py",
         """            try:
                default = int(default)  # signed integers too: `"-5".isdecimal()` is False
            except ValueError:
                default = float(default)""", """            default = int(default) if default.isdecimal() else float(default)""")]),
    dict(id="ladder-whole-floats-to-int", kind=B, props=["C17"], expect="TYPE-LADDER", edits=[("defaults_utils.py",
         """            except ValueError:
                default = float(default)""", """            except ValueError:
                default = float(default)
                if default.is_integer():
                    default = int(default)""")]),
    dict(id="ladder-literal-eval-unguarded", kind=B, props=["C17"], expect="TYPE-LADDER", edits=[("defaults_utils.py",
         """        try:
            lit = literal_eval(default)
        except (ValueError, SyntaxError):
            pass  # not a Python literal - an unquoted string, an expression: it is the value as it stands
        else:
            default = (""", """        lit = literal_eval(default)
        if True:
            default = (""")]),
    dict(id="ladder-bool-words-through-float", kind=B, props=["C17"], expect="TYPE-LADDER", edits=[("defaults_utils.py",
         """    elif default in frozenset(("True", "False")):
        default = literal_eval(default)
    else:""", """    elif default in frozenset(("true", "false")):
        default = literal_eval(default)
    else:""")]),
    dict(id="ladder-strip-sign-then-isdecimal", kind=N, props=["C17"], expect="silent", edits=[("defaults_utils.py",
         """            try:
                default = int(default)  # signed integers too: `"-5".isdecimal()` is False
            except ValueError:
                default = float(default)""", """            default = int(default) if default.lstrip("-").isdecimal() else float(default)""")]),
    dict(id="ladder-helper-function", kind=N, props=["C17"], expect="silent", edits=[("defaults_utils.py",
         """def extract_default(
    line,""", """def _to_number(text):
    \"\"\"int when the text is an integer literal, float otherwise; ValueError when it is no number\"\"\"
    try:
        return int(text)
    except ValueError:
        return float(text)


def extract_default(
    line,"""), ("defaults_utils.py", """            try:
                default = int(default)  # signed integers too: `"-5".isdecimal()` is False
            except ValueError:
                default = float(default)""", """            default = _to_number(default)""")]),
    dict(id="ladder-code-default-raises-again", kind=B, props=["C17"], expect="TYPE-LADDER", edits=[("defaults_utils.py",
         """        except (ValueError, SyntaxError):
            pass  # not a Python literal - an unquoted string, an expression: it is the value as it stands""", """        except (ValueError, SyntaxError):
            if typ != "str":
                raise""")]),
    # ------------------------------------------------------------------ EMPTY-HOLE (C08, C17)
    dict(id="emptyhole-fallback-dropped", kind=B, props=["C08", "C17"], expect="EMPTY-HOLE", edits=[("defaults_utils.py",
         """                default=(
                    '""'  # `quote` leaves the empty string bare
                    if _param["default"] == ""
                    else quote(_param["default"])
                )""",
         """                default=quote(_param["default"])""")]),
    dict(id="emptyhole-conditional-form", kind=N, props=["C08", "C17"], expect="silent", edits=[("defaults_utils.py",
         """                default=(
                    '""'  # `quote` leaves the empty string bare
                    if _param["default"] == ""
                    else quote(_param["default"])
                )""",
         """                default=('""' if _param["default"] == "" else quote(_param["default"]))""")]),
    dict(id="emptyhole-quote-handles-empty", kind=N, props=["C08", "C17"], expect="silent", edits=[("defaults_utils.py",
         """                default=(
                    '""'  # `quote` leaves the empty string bare
                    if _param["default"] == ""
                    else quote(_param["default"])
                )""",
         """                default=quote(_param["default"])"""), ("pure_utils.py",
         """    if s is None or len(s) == 0 or s[0] == s[-1] and s[0] in frozenset(("'", '"')):
        return s""", """    if s is None or len(s) > 0 and s[0] == s[-1] and s[0] in frozenset(("'", '"')):
        return s""")]),
    # ------------------------------------------------------------------ INVENTED-DEFAULT (C01, C07)
    dict(id="invented-default-rest-sweep-requires", kind=B, props=["C01", "C07"], expect="INVENTED-DEFAULT", edits=[("docstring_parsers.py",
         """                        partial(
                            interpolate_defaults, emit_default_doc=emit_default_doc
                        ),
                        ir[k].items(),""", """                        partial(
                            interpolate_defaults, emit_default_doc=emit_default_doc, require_default=bool(ir["params"])
                        ),
                        ir[k].items(),""")]),
    dict(id="invented-default-rest-token-requires", kind=B, props=["C01", "C07"], expect="INVENTED-DEFAULT", edits=[("docstring_parsers.py",
         """            interpolate_defaults(param, emit_default_doc=emit_default_doc),
            infer_type=infer_type,""", """            interpolate_defaults(param, emit_default_doc=emit_default_doc, require_default=infer_type),
            infer_type=infer_type,""")]),
    dict(id="invented-default-explicit-false", kind=N, props=["C01", "C07"], expect="silent", edits=[("docstring_parsers.py",
         """            interpolate_defaults(param, emit_default_doc=emit_default_doc),
            infer_type=infer_type,""", """            interpolate_defaults(param, emit_default_doc=emit_default_doc, require_default=False),
            infer_type=infer_type,""")]),
    # ------------------------------------------------------------------ QUOTE-TYPES (C01, C02, C06)
    dict(id="quotetypes-numbers-raise-again", kind=B, props=["C02", "C06"], expect="QUOTE-TYPES", edits=[("pure_utils.py",
         """    if isinstance(s, (int, float, complex)):
        return s  # a number (or a bool) is written as it is: only strings are quoted
""", "")]),
    dict(id="quotetypes-type-membership", kind=N, props=["C02", "C06"], expect="silent", edits=[("pure_utils.py",
         """    if isinstance(s, (int, float, complex)):
        return s  # a number (or a bool) is written as it is: only strings are quoted
""", """    if type(s) in (bool, int, float, complex) or isinstance(s, (int, float, complex)):
        return s
""")]),
    # ------------------------------------------------------------------ QUOTE-PAIR (C01, C03, C06, C08)
    dict(id="quotepair-escape-on-write-only", kind=B, props=["C06", "C08"], expect="QUOTE-PAIR", edits=[("pure_utils.py",
         """    return "{mark}{s}{mark}".format(mark=mark, s=s)""",
         """    return "{mark}{s}{mark}".format(mark=mark, s=s.replace(mark, "\\\\" + mark))""")]),
    dict(id="quotepair-unquote-strips-padding", kind=B, props=["C03", "C01"], expect="QUOTE-PAIR", edits=[("pure_utils.py",
         """    if (
        isinstance(input_str, str)
        and len(input_str) > 1""", """    input_str = input_str.strip() if isinstance(input_str, str) else input_str
    if (
        isinstance(input_str, str)
        and len(input_str) > 1""")]),
    dict(id="quotepair-positional-template", kind=N, props=["C06", "C08"], expect="silent", edits=[("pure_utils.py",
         """    return "{mark}{s}{mark}".format(mark=mark, s=s)""",
         """    return "{0}{1}{0}".format(mark, s)""")]),
    # ------------------------------------------------------------------ TYPE-LADDER: what stands in front of the ladder
    dict(id="ladder-unquote-before-inference", kind=B, props=["C17", "C01"], expect="TYPE-LADDER", edits=[("defaults_utils.py",
         """    default = default.strip(" \\t`")""", """    default = default.strip(" \\t`")
    if len(default) > 1 and default[0] == default[-1] and default[0] in ("'", '"'):
        default = default[1:-1]""")]),
    dict(id="ladder-regex-misses-plus-exponent", kind=B, props=["C17"], expect="TYPE-LADDER", edits=[("defaults_utils.py",
         """            try:
                default = int(default)  # signed integers too: `"-5".isdecimal()` is False
            except ValueError:
                default = float(default)""", """            import re
            if re.fullmatch(r"[+-]?\\d+", default):
                default = int(default)
            elif re.fullmatch(r"[+-]?(\\d+\\.?\\d*|\\.\\d+)(e-?\\d+)?", default):
                default = float(default)""")]),
    # ------------------------------------------------------------------ REJOIN scope
    dict(id="rejoin-applied-to-default", kind=B, props=["C07", "C18"], expect="REJOIN-UNIFORM", edits=[("docstring_parsers.py",
         """    if _param.get("default", False) in none_types:""", """    if isinstance(_param["default"], str):
        _param["default"] = " ".join(map(str.strip, _param["default"].split("\\n")))
    if _param.get("default", False) in none_types:""")]),
    # ------------------------------------------------------------------ DEFAULT-KIND (C03, C06, C08)
    dict(id="defaultkind-strip-on-raw-default", kind=B, props=["C03", "C06"], expect="DEFAULT-KIND", edits=[("emit.py",
         """                "{}".format(intermediate_repr["returns"]["return_type"]["default"]).strip(
                    "`"
                )""", """                intermediate_repr["returns"]["return_type"]["default"].strip("`")""")]),
    dict(id="defaultkind-startswith-on-default", kind=B, props=["C03", "C06"], expect="DEFAULT-KIND", edits=[("ast_utils.py",
         """    if "default" in _param:
        if not code_quoted(_param["default"]) or _param["default"][""", """    if "default" in _param:
        if _param["default"] is not None and _param["default"].startswith("lambda"):
            pass
        if not code_quoted(_param["default"]) or _param["default"][""")]),
    dict(id="defaultkind-isinstance-guard", kind=N, props=["C03", "C06"], expect="silent", edits=[("ast_utils.py",
         """    if "default" in _param:
        if not code_quoted(_param["default"]) or _param["default"][""", """    if "default" in _param:
        if isinstance(_param["default"], str) and _param["default"].startswith("lambda"):
            pass
        if not code_quoted(_param["default"]) or _param["default"][""")]),
    # ------------------------------------------------------------------ SCAN-END (C17, C01, C08)
    dict(id="scanend-sum-of-all-brackets", kind=B, props=["C17", "C08"], expect="SCAN-END", edits=[("defaults_utils.py",
         """            and par["{"] == par["}"]
            and par["["] == par["]"]
            and par["("] == par[")"]""", """            and not sum(par.values())""")]),
    dict(id="scanend-no-quote-state", kind=B, props=["C17", "C01"], expect="SCAN-END", edits=[("defaults_utils.py",
         """        elif ch in frozenset(("'", '"')) and not default.strip():""", """        elif ch in frozenset(("'", '"')) and default.strip():""")]),
    dict(id="scanend-digit-lookahead-dropped", kind=B, props=["C17"], expect="SCAN-END", edits=[("defaults_utils.py",
         """            and (idx == (sub_l_len - 1) or not (sub_l[idx + 1]).isdigit())
""", "")]),
    dict(id="scanend-either-mark-closes", kind=B, props=["C17", "C08", "C01"], expect="SCAN-END", edits=[("defaults_utils.py",
         """            if ch == quote_mark:""", """            if ch in ("'", '"'):""")]),
    dict(id="scanend-neutral-closing-test-reversed", kind=N, props=["C17", "C08"], expect="silent", edits=[("defaults_utils.py",
         """            if ch == quote_mark:
                quote_mark = None""", """            quote_mark = None if quote_mark == ch else quote_mark""")]),
    dict(id="scanend-depth-counter", kind=N, props=["C17", "C08"], expect="silent", edits=[("defaults_utils.py",
         """            and par["{"] == par["}"]
            and par["["] == par["]"]
            and par["("] == par[")"]""", """            and par["{"] + par["["] + par["("] == par["}"] + par["]"] + par[")"]""")]),
    # ------------------------------------------------------------------ TABLE-argparse: percent escaping
    dict(id="argparse-percent-unescaped-again", kind=B, props=["C04", "C06"], expect="TABLE-argparse", edits=[("ast_utils.py",
         """                                (fill if word_wrap else identity)(doc).replace("%", "%%")""",
         """                                (fill if word_wrap else identity)(doc)""")]),
    dict(id="argparse-percent-not-halved", kind=B, props=["C04", "C06"], expect="TABLE-argparse", edits=[("emitter_utils.py",
         """                get_value(key_word.value).replace("%%", "%")""", """                get_value(key_word.value)""")]),
    dict(id="argparse-percent-escaped-before-wrap", kind=N, props=["C04", "C06"], expect="silent", edits=[("ast_utils.py",
         """                                (fill if word_wrap else identity)(doc).replace("%", "%%")""",
         """                                (fill if word_wrap else identity)(doc.replace("%", "%%"))""")]),
    # ------------------------------------------------------------------ AST-LEAK (C03, C07)
    dict(id="astleak-unquote-branch-first", kind=B, props=["C03", "C07"], expect="AST-LEAK", edits=[("docstring_parsers.py",
         """    if isinstance(_param["default"], AST):
        try:""", """    if needs_quoting(_param.get("typ")):
        _param["default"] = unquote(_param["default"])
    elif isinstance(_param["default"], AST):
        try:""")]),
    dict(id="astleak-node-branch-only-for-untyped", kind=B, props=["C03", "C07"], expect="AST-LEAK", edits=[("docstring_parsers.py",
         """    if isinstance(_param["default"], AST):
        try:""", """    if isinstance(_param["default"], AST) and _param.get("typ") is None:
        try:""")]),
    dict(id="astleak-early-return-for-strings", kind=N, props=["C03", "C07"], expect="silent", edits=[("docstring_parsers.py",
         """    if isinstance(_param["default"], AST):
        try:""", """    if isinstance(_param["default"], str) and not code_quoted(_param["default"]) and False:
        return
    if isinstance(_param["default"], AST):
        try:""")]),
    # ---- round 7: PROSE-GATE, FALSY through a pass-through helper, FALSY in emit.function, nodeflow behind AST-LEAK
    dict(id="prosegate-line-only-with-prose", kind=B, props=["C01"], expect="PROSE-GATE", edits=[("docstring_utils.py",
         """                            if emit_doc and doc
                            else None,""", """                            if emit_doc and _param.get("doc")
                            else None,""")]),
    dict(id="prosegate-writer-leaves-without-doc-key", kind=B, props=["C01"], expect="PROSE-GATE", edits=[("defaults_utils.py",
         """    if _param is None or "doc" not in _param and "default" not in _param:""", """    if _param is None or "doc" not in _param:""")]),
    dict(id="prosegate-writer-leaves-on-empty-prose", kind=B, props=["C01"], expect="PROSE-GATE", edits=[("defaults_utils.py",
         """    _param = dict(_param)  # a copy: the caller's IR is left as it was given
""", """    if not _param.get("doc"):
        return name, _param
    _param = dict(_param)  # a copy: the caller's IR is left as it was given
""")]),
    dict(id="prosegate-neutral-test-on-written-text-length", kind=N, props=["C01"], expect="silent", edits=[("docstring_utils.py",
         """                            if emit_doc and doc
                            else None,""", """                            if emit_doc and doc is not None and len(doc) > 0
                            else None,""")]),
    dict(id="prosegate-neutral-default-absent-exit-first", kind=N, props=["C01", "C17"], expect="silent", edits=[("defaults_utils.py",
         """    if _param is None or "doc" not in _param and "default" not in _param:""", """    if _param is None or not ("doc" in _param or "default" in _param):""")]),
    dict(id="falsy-quote-or-fallback", kind=B, props=["C01", "C17", "C08"], expect="FALSY", edits=[("defaults_utils.py",
         """                default=(
                    '""'  # `quote` leaves the empty string bare
                    if _param["default"] == ""
                    else quote(_param["default"])
                )""", """                default=(quote(_param["default"]) or '""')""")]),
    dict(id="falsy-neutral-empty-compared-after-isinstance", kind=N, props=["C01", "C17", "C08"], expect="silent", edits=[("defaults_utils.py",
         """                    if _param["default"] == ""
                    else quote(_param["default"])""", """                    if isinstance(_param["default"], str) and _param["default"] == ""
                    else quote(_param["default"])""")]),
    dict(id="falsy-return-default-truth-test", kind=B, props=["C03", "C06"], expect="FALSY", edits=[("emit.py",
         """        not in (None, "")
        else None""", """        else None""")]),
    dict(id="falsy-neutral-return-default-two-comparisons", kind=N, props=["C03", "C06"], expect="silent", edits=[("emit.py",
         """        not in (None, "")
        else None""", """        not in ("", None)
        else None""")]),
    dict(id="astleak-neutral-local-alias", kind=N, props=["C03", "C07"], expect="silent", edits=[("docstring_parsers.py",
         """    if isinstance(_param["default"], AST):
        try:
            _param["default"] = ast.literal_eval(_param["default"])""", """    current = _param["default"]
    if isinstance(current, AST):
        try:
            _param["default"] = ast.literal_eval(current)""")]),
    dict(id="astleak-alias-stored-unconverted", kind=B, props=["C03", "C07"], expect="AST-LEAK", edits=[("docstring_parsers.py",
         """    if isinstance(_param["default"], AST):
        try:""", """    current = _param["default"]
    if isinstance(current, AST) and _param.get("typ") is None:
        try:""")]),
    dict(id="astleak-helper-converts-constants-only", kind=B, props=["C03", "C07"], expect="AST-LEAK", edits=[("docstring_parsers.py",
         """    if isinstance(_param["default"], AST):
        try:""", """    if isinstance(_param["default"], (ast.Constant, ast.Num, ast.Str)):
        try:""")]),
    # ---- TARGET-COVER (C09)
    dict(id="targetcover-first-of-truth-kind-skipped", kind=B, props=["C09"], expect="TARGET-COVER", edits=[("conformance.py",
         """                    type_wanted=type_wanted,
                ),
                filenames,""", """                    type_wanted=type_wanted,
                ),
                filenames[1:] if fun_name == args.truth else filenames,""")]),
    dict(id="targetcover-existing-files-only", kind=B, props=["C09"], expect="TARGET-COVER", edits=[("conformance.py",
         """                    type_wanted=type_wanted,
                ),
                filenames,""", """                    type_wanted=type_wanted,
                ),
                filter(path.isfile, filenames),""")]),
    dict(id="targetcover-neutral-list-copy", kind=N, props=["C09", "C10"], expect="silent", edits=[("conformance.py",
         """                    type_wanted=type_wanted,
                ),
                filenames,""", """                    type_wanted=type_wanted,
                ),
                list(filenames),""")]),
    # ---- round 7 (second half): REJOIN-COVER, RECEIVER-SITES, ARGPARSE-VERBATIM, WRAP-NOT-TYPE, TextWrapper objects, TABLE-announce over a table
    dict(id="rejoincover-only-with-default", kind=B, props=["C03", "C08", "C18"], expect="REJOIN-COVER", edits=[("parse.py",
         """    if "return_type" in (intermediate_repr.get("returns") or iter(())):""",
         """    if "default" in (intermediate_repr.get("returns") or {}).get("return_type", ()):""")]),
    dict(id="rejoincover-neutral-truthy-returns", kind=N, props=["C03", "C08", "C18"], expect="silent", edits=[("parse.py",
         """    if "return_type" in (intermediate_repr.get("returns") or iter(())):""",
         """    if intermediate_repr.get("returns") and "return_type" in intermediate_repr["returns"]:""")]),
    dict(id="receiver-self-only", kind=B, props=["C11", "C14", "C15"], expect="RECEIVER-SITES", edits=[("ast_utils.py",
         """                            in frozenset(("self", "cls"))""", """                            == "self\"""")]),
    dict(id="receiver-neutral-tuple", kind=N, props=["C11", "C14", "C15"], expect="silent", edits=[("ast_utils.py",
         """                            in frozenset(("self", "cls"))""", """                            in ("cls", "self")""")]),
    dict(id="argparse-description-percent-doubled", kind=B, props=["C06"], expect="ARGPARSE-VERBATIM", edits=[("emit.py",
         """                                    (fill if wrap_description else identity)(
                                        intermediate_repr["doc"]
                                    )""", """                                    (fill if wrap_description else identity)(
                                        intermediate_repr["doc"]
                                    ).replace("%", "%%")""")]),
    dict(id="wrapnottype-google-entry-wrapped", kind=B, props=["C18", "C01"], expect="WRAP-NOT-TYPE", edits=[("docstring_utils.py",
         """                    else None,
                ),
            )
        )


Tokens""", """                    else None,
                ),
            )
        ) if not word_wrap or name == "return_type" else _fill("".join(filter(None, ("  {name} ({typ}): ".format(name=name, typ=_param.get("typ") or ""), doc or ""))))


Tokens""")]),
    # ---- CMP-PARSED (C10, C09)
    dict(id="cmpparsed-built-node-compared-directly", kind=B, props=["C10", "C09"], expect="CMP-PARSED", edits=[("conformance.py",
         """    if not cmp_ast(
        original_node,
        ast_parse(to_code(replacement_node), skip_docstring_remit=True).body[0],
    ):""", """    if not cmp_ast(original_node, replacement_node):""")]),
    dict(id="cmpparsed-neutral-read-back-into-local", kind=N, props=["C10", "C09", "C11"], expect="silent", edits=[("conformance.py",
         """    if not cmp_ast(
        original_node,
        ast_parse(to_code(replacement_node), skip_docstring_remit=True).body[0],
    ):""", """    as_written = ast_parse(to_code(replacement_node), skip_docstring_remit=True)
    if not cmp_ast(original_node, as_written.body[0]):""")]),
    # ---- SLICE-WRAP (scoped pitfall)
    dict(id="slicewrap-announcement-at-position-zero", kind=B, props=["C17", "C08"], expect="SLICE-WRAP", edits=[("defaults_utils.py",
         """        fst = line[: max(_start_idx - 1, 0)]""", """        fst = line[: _start_idx - 1]""")]),
    dict(id="slicewrap-neutral-guarded", kind=N, props=["C17", "C08"], expect="silent", edits=[("defaults_utils.py",
         """        fst = line[: max(_start_idx - 1, 0)]""", """        fst = line[: _start_idx - 1] if _start_idx > 0 else \"\"""")]),
    # ---- JOIN-KIND, GETVALUE-PART
    dict(id="joinkind-identity-before-join", kind=B, props=["C04", "C06"], expect="JOIN-KIND", edits=[("emitter_utils.py",
         """        types=", ".join(
            "{}".format(quote_f(get_value(elt))) for elt in keyword.value.elts
        ),""", """        types=", ".join(quote_f(get_value(elt)) for elt in keyword.value.elts),""")]),
    dict(id="joinkind-neutral-map-str", kind=N, props=["C04", "C06"], expect="silent", edits=[("emitter_utils.py",
         """        types=", ".join(
            "{}".format(quote_f(get_value(elt))) for elt in keyword.value.elts
        ),""", """        types=", ".join(str(quote_f(get_value(elt))) for elt in keyword.value.elts),""")]),
    dict(id="getvalue-anything-with-a-value", kind=B, props=["C07", "C02", "C04", "C06"], expect="GETVALUE-PART", edits=[("ast_utils.py",
         """    elif isinstance(node, (Constant, Expr, Return, Assign, AnnAssign, keyword, Index)):""",
         """    elif isinstance(node, Constant) or hasattr(node, "value"):""")]),
    dict(id="getvalue-attribute-added-to-holders", kind=B, props=["C07"], expect="GETVALUE-PART", edits=[("ast_utils.py",
         """    elif isinstance(node, (Constant, Expr, Return, Assign, AnnAssign, keyword, Index)):""",
         """    elif isinstance(node, (Constant, Expr, Return, Assign, AnnAssign, keyword, Index, Attribute)):""")]),
    dict(id="getvalue-neutral-two-tests", kind=N, props=["C07", "C04"], expect="silent", edits=[("ast_utils.py",
         """    elif isinstance(node, (Constant, Expr, Return, Assign, AnnAssign, keyword, Index)):""",
         """    elif isinstance(node, (Constant, Index)) or isinstance(node, (Expr, Return, Assign, AnnAssign, keyword)):""")]),
    # ---- STRIP-SET through a parameter, LIVE-TYPE (C19)
    dict(id="stripset-namespace-as-character-set", kind=B, props=["C19"], expect="STRIP-SET", edits=[("pure_utils.py",
         """        while namespace and s.startswith(namespace):
            s = s[len(namespace) :]""", """        s = s.lstrip(namespace)""")]),
    dict(id="livetype-annotation-object-formatted", kind=B, props=["C19"], expect="LIVE-TYPE", edits=[("parser_utils.py",
         """            sig_param.annotation.__name__
            if isinstance(sig_param.annotation, type)
            else "{!s}".format(sig_param.annotation)""", """            "{!s}".format(sig_param.annotation)""")]),
    dict(id="livetype-neutral-qualname", kind=N, props=["C19"], expect="silent", edits=[("parser_utils.py",
         """            sig_param.annotation.__name__
            if isinstance(sig_param.annotation, type)""", """            getattr(sig_param.annotation, "__qualname__")
            if isinstance(sig_param.annotation, type)""")]),
    dict(id="livetype-name-of-anything-that-has-one", kind=B, props=["C19", "C07"], expect="LIVE-TYPE", edits=[("parser_utils.py",
         """            sig_param.annotation.__name__
            if isinstance(sig_param.annotation, type)
            else "{!s}".format(sig_param.annotation)""", """            getattr(sig_param.annotation, "__name__", None)
            or "{!s}".format(sig_param.annotation)""")]),
    dict(id="livetype-neutral-isclass", kind=N, props=["C19", "C07"], expect="silent", edits=[("parser_utils.py",
         """            sig_param.annotation.__name__
            if isinstance(sig_param.annotation, type)
            else "{!s}".format(sig_param.annotation)""", """            "{!s}".format(sig_param.annotation)
            if not __import__("inspect").isclass(sig_param.annotation)
            else sig_param.annotation.__name__""")]),
    # ---- TABLE-style: the reader's heading test against the writer's prose-less parameter line
    dict(id="heading-test-after-rstrip", kind=B, props=["C01"], expect="TABLE-style", edits=[("docstring_parsers.py",
         """        (idx for idx, elem in enumerate(scanned_params) if elem[0].endswith(":")), None""",
         """        (idx for idx, elem in enumerate(scanned_params) if elem[0].rstrip().endswith(":")), None""")]),
    dict(id="heading-test-neutral-loop", kind=N, props=["C01"], expect="silent", edits=[("docstring_parsers.py",
         """        (idx for idx, elem in enumerate(scanned_params) if elem[0].endswith(":")), None""",
         """        (idx for idx, entry in enumerate(scanned_params) if entry[0].rstrip("\\n").endswith(":")), None""")]),
    # ---- WRAP-WIDTH (C18, C01, C03)
    dict(id="wrapwidth-second-pass-narrower", kind=B, props=["C18", "C01", "C03"], expect="WRAP-WIDTH", edits=[("emitter_utils.py",
         """            indent_all_but_first(fill(s), indent_level + 1, wipe_indents=True)""",
         """            indent_all_but_first(fill(s, width=line_length - 8), indent_level + 1, wipe_indents=True)""")]),
    dict(id="wrapwidth-neutral-explicit-same-width", kind=N, props=["C18", "C01", "C03"], expect="silent", edits=[("emitter_utils.py",
         """            indent_all_but_first(fill(s), indent_level + 1, wipe_indents=True)""",
         """            indent_all_but_first(fill(s, width=line_length), indent_level + 1, wipe_indents=True)""")]),
    # ---- FALSY none-marker clause (C03)
    dict(id="falsy-none-marker-is-no-return", kind=B, props=["C03"], expect="FALSY", edits=[("emit.py",
         """        not in (None, "")
        else None""", """        not in none_types + ("",)
        else None""")]),
    dict(id="falsy-neutral-absent-set", kind=N, props=["C03"], expect="silent", edits=[("emit.py",
         """        not in (None, "")
        else None""", """        not in frozenset((None, ""))
        else None""")]),
    # ---- QUOTE-PAIR node-builder clause (C06, C02)
    dict(id="setvalue-strips-every-layer", kind=B, props=["C06", "C02"], expect="QUOTE-PAIR", edits=[("ast_utils.py",
         """        value = value[1:-1]""", """        value = value.strip(value[0])""")]),
    dict(id="setvalue-neutral-slice-by-length", kind=N, props=["C06", "C02"], expect="silent", edits=[("ast_utils.py",
         """        value = value[1:-1]""", """        value = value[1 : len(value) - 1]""")]),
    # ---- DOC-ALL-LINES continuation clause (C18, C04)
    dict(id="docalllines-continuation-only-behind-text", kind=B, props=["C18", "C04"], expect="DOC-ALL-LINES", edits=[("emitter_utils.py",
         """                        lambda line: not line.lstrip().startswith(":"), doc_lines[1:]
                    ),""", """                        lambda line: not line.lstrip().startswith(":"),
                        doc_lines[1:] if doc_lines[0].partition(",")[2].strip() else (),
                    ),""")]),
    dict(id="docalllines-neutral-continuation-under-length-test", kind=N, props=["C18", "C04"], expect="silent", edits=[("emitter_utils.py",
         """                        lambda line: not line.lstrip().startswith(":"), doc_lines[1:]
                    ),""", """                        lambda line: not line.lstrip().startswith(":"),
                        doc_lines[1:] if len(doc_lines) > 1 else (),
                    ),""")]),
    # ---- DET-1 with reaching definitions (C12, C07)
    dict(id="det1-set-on-one-path", kind=B, props=["C12", "C07"], expect="DET-1", edits=[("parser_utils.py",
         """        for name in tuple(
            filter(lambda key: key not in target_params, other_params.keys())
        ):""", """        missing = [key for key in other_params if key not in target_params]
        if len(missing) > 1:
            missing = set(missing)
        for name in missing:""")]),
    dict(id="det1-neutral-set-then-ordered-again", kind=N, props=["C12", "C07"], expect="silent", edits=[("parser_utils.py",
         """        for name in tuple(
            filter(lambda key: key not in target_params, other_params.keys())
        ):""", """        missing = set(other_params) - set(target_params)
        missing = [key for key in other_params if key in missing]
        for name in missing:""")]),
    # ---- VISIT-7 (C11, C15)
    dict(id="visit7-function-handler-descends", kind=B, props=["C11", "C15"], expect="VISIT-7", edits=[("ast_utils.py",
         """                        self.replaced = True
                        break

        return node


def emit_ann_assign(node):""", """                        self.replaced = True
                        break

        return NodeTransformer.generic_visit(self, node)


def emit_ann_assign(node):""")]),
    dict(id="visit7-neutral-named-result", kind=N, props=["C11", "C15"], expect="silent", edits=[("ast_utils.py",
         """                        self.replaced = True
                        break

        return node


def emit_ann_assign(node):""", """                        self.replaced = True
                        break

        visited = node
        return visited


def emit_ann_assign(node):""")]),
    # ---- VISIT-4 scope-prefix clause (C11, C15)
    dict(id="visit4-coroutine-is-no-scope", kind=B, props=["C11", "C15"], expect="VISIT-4", edits=[("ast_utils.py",
         """        name = [_node.name] if hasattr(_node, "name") else []""",
         """        name = [_node.name] if isinstance(_node, (ClassDef, FunctionDef)) else []""")]),
    dict(id="visit4-neutral-scope-by-getattr", kind=N, props=["C11", "C15"], expect="silent", edits=[("ast_utils.py",
         """        name = [_node.name] if hasattr(_node, "name") else []""",
         """        name = [_node.name] if getattr(_node, "name", None) is not None or hasattr(_node, "name") else []""")]),
    # ---- VISIT-8 (C10)
    dict(id="visit8-decorators-copied-onto-replacement", kind=B, props=["C10"], expect="VISIT-8", edits=[("ast_utils.py",
         """            self.replaced = True
            return self.replacement_node
        else:""", """            self.replaced = True
            if getattr(node, "decorator_list", None) and hasattr(self.replacement_node, "decorator_list"):
                self.replacement_node.decorator_list = node.decorator_list
            return self.replacement_node
        else:""")]),
    dict(id="visit8-neutral-replacement-through-local", kind=N, props=["C10"], expect="silent", edits=[("ast_utils.py",
         """            self.replaced = True
            return self.replacement_node
        else:""", """            self.replaced = True
            replacement = self.replacement_node
            return replacement
        else:""")]),
    # ---- DIRNAME-EMPTY pitfall (C20, C09)
    dict(id="dirname-empty-makedirs", kind=B, props=["C20", "C09"], expect="DIRNAME-EMPTY", edits=[("emit.py", """from os import path
""", """from os import makedirs, path
"""), ("emit.py",
         """    with open(filename, mode) as f:
        f.write(src)""", """    makedirs(path.dirname(filename), exist_ok=True)
    with open(filename, mode) as f:
        f.write(src)""")]),
    dict(id="dirname-empty-neutral-absolute-first", kind=N, props=["C20", "C09"], expect="silent", edits=[("emit.py", """from os import path
""", """from os import makedirs, path
"""), ("emit.py",
         """    with open(filename, mode) as f:
        f.write(src)""", """    makedirs(path.dirname(path.abspath(filename)), exist_ok=True)
    with open(filename, mode) as f:
        f.write(src)""")]),
    # ---- ARGS-ORDER (C09)
    dict(id="argsorder-files-sorted", kind=B, props=["C09"], expect="ARGS-ORDER", edits=[("__main__.py",
         """        truth_file = getattr(args, pluralise(args.truth))
        if truth_file is None:""", """        args.functions = sorted(set(args.functions)) if args.functions else args.functions
        truth_file = getattr(args, pluralise(args.truth))
        if truth_file is None:""")]),
    dict(id="argsorder-neutral-files-copied", kind=N, props=["C09"], expect="silent", edits=[("__main__.py",
         """        truth_file = getattr(args, pluralise(args.truth))
        if truth_file is None:""", """        args.functions = list(args.functions) if args.functions else args.functions
        truth_file = getattr(args, pluralise(args.truth))
        if truth_file is None:""")]),
    # ---- FIRST-MATCH by a key (C16, C07)
    dict(id="firstmatch-earliest-line-wins", kind=B, props=["C16", "C07"], expect="FIRST-MATCH", edits=[("parse.py",
         """    function_def = next(
        filter(
            lambda func: func.name == merge_inner_function,
            filter(rpartial(isinstance, FunctionDef), ast.walk(class_def)),
        ),
        None,
    )""", """    function_def = min(
        filter(
            lambda func: func.name == merge_inner_function,
            filter(rpartial(isinstance, FunctionDef), ast.walk(class_def)),
        ),
        key=lambda func: func.lineno,
        default=None,
    )""")]),
    # ---- VISIT-9 (C19, C06)
    dict(id="visit9-statement-deleted-at-any-depth", kind=B, props=["C06", "C19"], expect="VISIT-9", edits=[("emitter_utils.py",
         """    def __init__(self, node_ids):""", """    def visit_Pass(self, node):
        return None

    def __init__(self, node_ids):""")]),
    dict(id="visit9-neutral-statement-kept", kind=N, props=["C06", "C19"], expect="silent", edits=[("emitter_utils.py",
         """    def __init__(self, node_ids):""", """    def visit_Pass(self, node):
        return node

    def __init__(self, node_ids):""")]),
    # ---- PARAM-KEPT (C07, C03)
    dict(id="paramkept-return-type-popped-in-merge", kind=B, props=["C07", "C03"], expect="PARAM-KEPT", edits=[("parser_utils.py",
         """    if "return_type" not in (target.get("returns") or iter(())):""",
         """    if "return_type" in target["params"]:
        target["returns"] = OrderedDict((("return_type", target["params"].pop("return_type")),))
    if "return_type" not in (target.get("returns") or iter(())):""")]),
    dict(id="paramkept-neutral-class-convention-in-helper", kind=N, props=["C07", "C03"], expect="silent", edits=[("parse.py",
         """    if "return_type" in intermediate_repr["params"]:
        intermediate_repr["returns"] = OrderedDict(
            (("return_type", intermediate_repr["params"].pop("return_type")),)
        )
""", """    (lambda params: intermediate_repr.__setitem__("returns", OrderedDict((("return_type", params.pop("return_type")),))) if "return_type" in params else None)(intermediate_repr["params"])
""")]),
    dict(id="livetype-helper-writes-name-of-anything", kind=B, props=["C19", "C07"], expect="LIVE-TYPE", edits=[("parser_utils.py",
         """def _inspect_process_ir_param(param, sig):""", """def _annotation_text(annotation):
    name = getattr(annotation, "__name__", None)
    if name:
        return name
    return "{!s}".format(annotation)


def _inspect_process_ir_param(param, sig):"""), ("parser_utils.py",
         """            sig_param.annotation.__name__
            if isinstance(sig_param.annotation, type)
            else "{!s}".format(sig_param.annotation)""", """            _annotation_text(sig_param.annotation)""")]),
    dict(id="livetype-neutral-helper-with-early-return", kind=N, props=["C19", "C07"], expect="silent", edits=[("parser_utils.py",
         """def _inspect_process_ir_param(param, sig):""", """def _annotation_text(annotation):
    if isinstance(annotation, type):
        return annotation.__name__
    return "{!s}".format(annotation)


def _inspect_process_ir_param(param, sig):"""), ("parser_utils.py",
         """            sig_param.annotation.__name__
            if isinstance(sig_param.annotation, type)
            else "{!s}".format(sig_param.annotation)""", """            _annotation_text(sig_param.annotation)""")]),
    # ---- JOIN-SOURCE (C19)
    dict(id="joinsource-imports-glued", kind=B, props=["C19"], expect="JOIN-SOURCE", edits=[("gen.py",
         """            imports = "\\n".join(
                map(
                    lambda node: to_code(node).rstrip("\\n"),""", """            imports = "".join(
                map(
                    lambda node: to_code(node).rstrip("\\n"),""")]),
    dict(id="joinsource-neutral-terminated-pieces", kind=N, props=["C19"], expect="silent", edits=[("gen.py",
         """            imports = "\\n".join(
                map(
                    lambda node: to_code(node).rstrip("\\n"),""", """            imports = "".join(
                map(
                    lambda node: to_code(node).rstrip("\\n") + "\\n",""")]),
    # ---- DOC-ALL-LINES (C18, C01)
    dict(id="docalllines-numpydoc-return-second-line-only", kind=B, props=["C18", "C01"], expect="DOC-ALL-LINES", edits=[("docstring_parsers.py",
         """                                    "doc": "\\n".join(
                                        map(str.lstrip, scanned[return_tokens[0]][0][1:])
                                    ),""", """                                    "doc": scanned[return_tokens[0]][0][1].lstrip(),""")]),
    dict(id="docalllines-neutral-generator-join", kind=N, props=["C18", "C01"], expect="silent", edits=[("docstring_parsers.py",
         """                                    "doc": "\\n".join(
                                        map(str.lstrip, scanned[return_tokens[0]][0][1:])
                                    ),""", """                                    "doc": "\\n".join(
                                        line.lstrip() for line in scanned[return_tokens[0]][0][1:]
                                    ),""")]),
    # ---- RETURN-CONST, DOC-ALL-LINES next-of-lines (C04)
    dict(id="returnconst-rendered-to-source", kind=B, props=["C04"], expect="RETURN-CONST", edits=[("emitter_utils.py",
         """                "default": e.value.elts[1].value
                if isinstance(getattr(e.value.elts[1], "value", None), str)
                and code_quoted(e.value.elts[1].value)
                else to_code(e.value.elts[1]).rstrip("\\n"),""", """                "default": to_code(e.value.elts[1]).rstrip("\\n"),""")]),
    dict(id="docalllines-argparse-return-first-line", kind=B, props=["C04", "C18"], expect="DOC-ALL-LINES", edits=[("emitter_utils.py",
         """                "doc": extract_default(
                    return_doc,""", """                "doc": extract_default(
                    next(line.partition(",")[2].lstrip() for line in get_value(function_def.body[0].value).split("\\n") if line.lstrip().startswith(":return")),""")]),
    # ---- TABLE-style: google return type line
    dict(id="googleret-single-line-taken-for-prose", kind=B, props=["C01"], expect="TABLE-style", edits=[("docstring_parsers.py",
         """                                    if len(scanned[return_tokens[0]]) == 1
                                    and isinstance(scanned[return_tokens[0]][0], str)
                                    and scanned[return_tokens[0]][0].rstrip().endswith(":")""", """                                    if len(scanned[return_tokens[0]]) == 1
                                    and isinstance(scanned[return_tokens[0]][0], str)
                                    and scanned[return_tokens[0]][0].rstrip().startswith("Tuple")""")]),
    # ---- LIVE-SIG (C19), DEFAULT-KIND ast.parse (C06)
    dict(id="livesig-first-parameter-no-default", kind=B, props=["C19"], expect="LIVE-SIG", edits=[("parse.py",
         """            next(iter(sig.parameters), None), "static\"""", """            next(iter(sig.parameters.values())).name, "static\"""")]),
    dict(id="livesig-empty-dict-fallback", kind=B, props=["C19"], expect="LIVE-SIG", edits=[("parse.py",
         """    ir = docstring(doc, emit_default_doc=is_function)  # without a docstring: the empty description""",
         """    ir = docstring(doc, emit_default_doc=is_function) if doc else {}""")]),
    dict(id="livesig-neutral-guarded-first-parameter", kind=N, props=["C19"], expect="silent", edits=[("parse.py",
         """            next(iter(sig.parameters), None), "static\"""", """            next(iter(sig.parameters)) if sig.parameters else None, "static\"""")]),
    dict(id="defaultkind-return-default-parsed-unconditionally", kind=B, props=["C06"], expect="DEFAULT-KIND", edits=[("emit.py",
         """                                            # a number or a boolean is its own constant; only text is parsed
                                            or not isinstance(
                                                intermediate_repr["returns"][
                                                    "return_type"
                                                ]["default"],
                                                str,
                                            )
""", "")]),
]
