#!/venv/bin/python
"""
Test the checker both ways on repository variants (not a registered property command).

usage: run_selftest.py [--props C10,C12] [--ids id1,id2] [--jobs 16] [--quiet]
exit 0 iff every applicable variant met its expectation.  Writes /verif/selftest/RESULTS.json (unless --no-write).
"""
import argparse
import json
import os
import shutil
import subprocess
import sys
import tempfile
from concurrent.futures import ThreadPoolExecutor

HERE = os.path.dirname(os.path.abspath(__file__))
VERIF = os.path.dirname(HERE)
sys.path.insert(0, HERE)
REPO = os.environ.get("SA_REPO", "/repo")


def run_prop(pid, repo, evdir):
    env = dict(os.environ, SA_REPO=repo, SA_EVIDENCE_DIR=evdir)
    p = subprocess.run(["/venv/bin/python", os.path.join(VERIF, "sa", "run.py"), pid, "--tier", "quick"], capture_output=True, text=True, env=env)
    viol = set()
    err = None
    try:
        ev = json.load(open(os.path.join(evdir, "%s.json" % pid)))
        for o in ev["coverage"]["all_obligations"]:
            if o["verdict"] == "violation":
                viol.add((o["rule"], o["instance"]))
        err = ev["coverage"].get("analysis_error")
    except Exception as e:  # pragma: no cover
        err = "no evidence: %r" % e
    return p.returncode, viol, err, p.stdout


def make_variant(v, base):
    d = tempfile.mkdtemp(prefix="st_%s_" % v["id"][:20], dir="/tmp")
    pkg = os.path.join(d, "doctrans")
    os.makedirs(pkg)
    for fn in os.listdir(os.path.join(base, "doctrans")):
        if fn.endswith(".py"):
            shutil.copy(os.path.join(base, "doctrans", fn), os.path.join(pkg, fn))
    for fn, old, new in v["edits"]:
        p = os.path.join(pkg, fn)
        s = open(p).read()
        if old not in s:
            shutil.rmtree(d, ignore_errors=True)
            return None, "edit target not found in %s: %r" % (fn, old[:60])
        s = s.replace(old, new, 1)
        try:
            compile(s, p, "exec")
        except SyntaxError as e:
            shutil.rmtree(d, ignore_errors=True)
            return None, "variant does not compile: %s" % e
        open(p, "w").write(s)
    return d, None


def check_variant(v, clean):
    d, why = make_variant(v, REPO)
    res = {"id": v["id"], "kind": v["kind"], "expect": v["expect"], "props": v["props"], "status": "ok", "detail": []}
    if d is None:
        res["status"] = "not-applicable" if "not found" in why else "FAIL"
        res["detail"].append(why)
        return res
    evdir = d + "_ev"
    try:
        for pid in v["props"]:
            rc, viol, err, out = run_prop(pid, d, evdir)
            new = viol - clean[pid][1]
            if v["expect"] == "silent":
                if err or new or rc != clean[pid][0]:
                    res["status"] = "FAIL"
                    res["detail"].append("%s: expected silent, got rc=%d new=%s err=%s" % (pid, rc, sorted(new)[:3], err))
                else:
                    res["detail"].append("%s: silent" % pid)
            else:
                hit = [x for x in new if x[0].startswith(v["expect"])]
                if hit and rc == 1:
                    res["detail"].append("%s: %s fired: %s" % (pid, v["expect"], hit[0][1][:100]))
                else:
                    res["status"] = "FAIL"
                    res["detail"].append("%s: expected %s to fire, got rc=%d new=%s err=%s" % (pid, v["expect"], rc, sorted(new)[:3], err))
    finally:
        shutil.rmtree(d, ignore_errors=True)
        shutil.rmtree(evdir, ignore_errors=True)
    return res


def main():
    ap = argparse.ArgumentParser()
    ap.add_argument("--props")
    ap.add_argument("--ids")
    ap.add_argument("--jobs", type=int, default=16)
    ap.add_argument("--quiet", action="store_true")
    ap.add_argument("--no-write", action="store_true")
    a = ap.parse_args()
    from variants import VARIANTS
    vs = VARIANTS
    if a.props:
        want = set(a.props.split(","))
        vs = [dict(v, props=[p for p in v["props"] if p in want]) for v in vs if set(v["props"]) & want]
    if a.ids:
        want = set(a.ids.split(","))
        vs = [v for v in vs if v["id"] in want]
    props = sorted({p for v in vs for p in v["props"]})
    cleandir = tempfile.mkdtemp(prefix="st_clean_", dir="/tmp")
    clean = {}
    with ThreadPoolExecutor(max_workers=a.jobs) as ex:
        for pid, r in zip(props, ex.map(lambda p: run_prop(p, REPO, os.path.join(cleandir, p)), props)):
            clean[pid] = r
    shutil.rmtree(cleandir, ignore_errors=True)
    bad_clean = [p for p in props if clean[p][0] == 2]
    if bad_clean:
        print("selftest: the checks do not run on the clean tree: %s" % bad_clean)
        return 2
    with ThreadPoolExecutor(max_workers=a.jobs) as ex:
        results = list(ex.map(lambda v: check_variant(v, clean), vs))
    n_ok = sum(r["status"] == "ok" for r in results)
    n_na = sum(r["status"] == "not-applicable" for r in results)
    n_fail = sum(r["status"] == "FAIL" for r in results)
    for r in results:
        if not a.quiet or r["status"] != "ok":
            print("%-14s %-8s %-45s %s" % (r["status"], r["kind"], r["id"], " | ".join(r["detail"])[:260]))
    print("selftest: %d variants: %d ok (%d breaking fired, %d neutral silent), %d not applicable, %d FAILED"
          % (len(results), n_ok, sum(r["status"] == "ok" and r["kind"] == "breaking" for r in results),
             sum(r["status"] == "ok" and r["kind"] == "neutral" for r in results), n_na, n_fail))
    if not a.no_write and not a.props and not a.ids:
        head = subprocess.run(["git", "-C", REPO, "rev-parse", "HEAD"], capture_output=True, text=True).stdout.strip()
        json.dump({"repo_head": head, "summary": {"variants": len(results), "ok": n_ok, "not_applicable": n_na, "failed": n_fail}, "results": results},
                  open(os.path.join(HERE, "RESULTS.json"), "w"), indent=1)
    return 0 if n_fail == 0 else 1


if __name__ == "__main__":
    sys.exit(main())
