#!/bin/bash
# usage: seedrun.sh <seed-id e.g. C07-b> <property id...>   runs the checks on a scratch worktree with the seeded patch applied
set -e
S=$1; shift
WT=/tmp/sc_$S
git -C /repo worktree add -q --detach $WT HEAD
git -C $WT apply /verif/seeded/$S/patch.diff
for P in "$@"; do SA_REPO=$WT SA_EVIDENCE_DIR=/tmp/sc_ev_$S /venv/bin/python /verif/sa/run.py $P 2>&1 | grep -v WARNING | cut -c1-400 || true; done
git -C /repo worktree remove --force $WT
rm -rf /tmp/sc_ev_$S
