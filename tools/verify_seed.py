#!/venv/bin/python
"""Confirm a seeded change independently: (1) patch applies to a clean scratch worktree of /repo HEAD,
(2) the pinned baseline still passes with it, (3) its demo fails with it, (4) the demo passes without it.
usage: verify_seed.py <dir with patch.diff demo.py> <scratch worktree>   -> prints one JSON line"""
import json
import os
import subprocess
import sys


def sh(cmd, cwd=None, env=None, timeout=900):
    p = subprocess.run(cmd, cwd=cwd, env=env, capture_output=True, text=True, timeout=timeout)
    return p.returncode, (p.stdout + p.stderr)


def main(d, wt):
    res = {"dir": d}
    patch, demo = os.path.join(d, "patch.diff"), os.path.join(d, "demo.py")
    env = dict(os.environ, PYTHONPATH=wt, PYTHONDONTWRITEBYTECODE="1")
    sh(["git", "-C", wt, "checkout", "--", "."])
    rc, out = sh(["git", "-C", wt, "status", "--short"])
    res["clean_before"] = out.strip() == ""
    rc, out = sh(["/venv/bin/python", demo], cwd=d, env=env)
    res["demo_clean_rc"] = rc
    res["demo_clean_pass"] = rc == 0 and "PASS" in out and "FAIL" not in out
    rc, out = sh(["git", "-C", wt, "apply", patch])
    res["applies"] = rc == 0
    if rc != 0:
        res["apply_err"] = out[-300:]
    else:
        rc, out = sh(["git", "-C", wt, "diff", "--stat"])
        res["touches"] = [l.split("|")[0].strip() for l in out.splitlines() if "|" in l]
        rc, out = sh(["/venv/bin/python", os.path.join(os.path.dirname(os.path.abspath(__file__)), "baseline.py"), wt])
        res["baseline_ok"] = rc == 0
        res["baseline_msg"] = out.strip().splitlines()[-1] if out.strip() else ""
        rc, out = sh(["/venv/bin/python", demo], cwd=d, env=env)
        res["demo_patched_rc"] = rc
        res["demo_patched_fails"] = rc != 0 or "FAIL" in out
        res["demo_patched_tail"] = out.strip()[-300:]
    sh(["git", "-C", wt, "checkout", "--", "."])
    res["ok"] = bool(res.get("applies") and res.get("baseline_ok") and res.get("demo_patched_fails") and res.get("demo_clean_pass")
                     and all(t.startswith("doctrans/") and "/tests/" not in t for t in res.get("touches", [])))
    print(json.dumps(res))


if __name__ == "__main__":
    main(sys.argv[1], sys.argv[2])
