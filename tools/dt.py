#!/venv/bin/python
"""Hand-probing helper (not a property check): run the doctrans CLI in this sandbox.
`meta.asttools` raises KeyError on its first import under 3.12 and imports on retry."""
import sys
try:
    import meta.asttools  # noqa
except KeyError:
    pass
from doctrans.__main__ import main
main(sys.argv[1:])
