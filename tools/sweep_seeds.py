#!/venv/bin/python
"""Run every registered check against every seeded change (each applied to its own scratch worktree of /repo HEAD,
removed afterwards) and record which checks report it.  Not a property check; results go to /verif/seeded/RESULTS.json
and are quoted in DESIGN.md.  usage: sweep_seeds.py [seed-id ...]"""
import json
import os
import shutil
import subprocess
import sys
from concurrent.futures import ThreadPoolExecutor

VERIF = os.path.dirname(os.path.dirname(os.path.abspath(__file__)))
SEEDS = os.path.join(VERIF, "seeded")


def sh(cmd, **kw):
    p = subprocess.run(cmd, capture_output=True, text=True, **kw)
    return p.returncode, p.stdout + p.stderr


def props():
    m = json.load(open(os.path.join(VERIF, "MANIFEST.json")))
    return [c["property_id"] for c in m["checks"]]


def one(seed):
    wt = "/tmp/sweep_%s_%d" % (seed, os.getpid())
    ev = wt + "_ev"
    res = {"seed": seed, "property": seed.split("-")[0], "caught_by": {}, "errors": []}
    try:
        rc, out = sh(["git", "-C", "/repo", "worktree", "add", "-q", "--detach", wt, "HEAD"])
        if rc:
            res["errors"].append(out[-200:])
            return res
        rc, out = sh(["git", "-C", wt, "apply", os.path.join(SEEDS, seed, "patch.diff")])
        if rc:
            res["errors"].append("patch does not apply: " + out[-200:])
            return res
        env = dict(os.environ, SA_REPO=wt, SA_EVIDENCE_DIR=ev)
        for p in props():
            rc, out = sh(["/venv/bin/python", os.path.join(VERIF, "sa", "run.py"), p, "--tier", os.environ.get("SWEEP_TIER", "quick")], env=env)
            if rc == 1:
                lines = [l.strip() for l in out.splitlines() if l.startswith("  doctrans/")]
                res["caught_by"][p] = [l[:300] for l in lines]
            elif rc == 2:
                res["errors"].append("%s: %s" % (p, out.strip().splitlines()[-1][:300]))
    finally:
        sh(["git", "-C", "/repo", "worktree", "remove", "--force", wt])
        shutil.rmtree(ev, ignore_errors=True)
    return res


def main():
    seeds = sys.argv[1:] or sorted(d for d in os.listdir(SEEDS) if os.path.isfile(os.path.join(SEEDS, d, "patch.diff")))
    with ThreadPoolExecutor(max_workers=8) as ex:
        results = list(ex.map(one, seeds))
    sh(["git", "-C", "/repo", "worktree", "prune"])
    caught = 0
    for r in results:
        own = r["property"] in r["caught_by"]
        any_ = bool(r["caught_by"])
        caught += 1 if any_ else 0
        print("%-7s %s own-check=%s  by=%s %s" % (r["seed"], "CAUGHT" if any_ else "missed", own, ",".join(sorted(r["caught_by"])), ("ERR " + "; ".join(r["errors"])) if r["errors"] else ""))
        if os.environ.get("SWEEP_SHOW"):
            shown = set()
            for p, msgs in sorted(r["caught_by"].items()):
                for m in msgs:
                    k = m.split(": ", 1)[-1]
                    if k not in shown:
                        shown.add(k)
                        print("      [%s] %s" % (p, m))
    print("%d/%d seeded changes reported by at least one check" % (caught, len(results)))
    if not sys.argv[1:]:
        json.dump({"head": sh(["git", "-C", "/repo", "rev-parse", "HEAD"])[1].strip(), "results": results}, open(os.path.join(SEEDS, "RESULTS.json"), "w"), indent=1)


if __name__ == "__main__":
    main()
