#!/venv/bin/python
"""Regenerate /verif/MANIFEST.json from sa/props.py (run after changing which rules decide a property)."""
import json, os, sys
VERIF = os.path.dirname(os.path.dirname(os.path.abspath(__file__)))
sys.path.insert(0, VERIF)
from sa.props import SPECS

checks = []
for pid in sorted(SPECS):
    sp = SPECS[pid]
    checks.append({
        "property_id": pid,
        "quick_cmd": "/venv/bin/python /verif/sa/run.py %s --tier quick" % pid,
        "thorough_cmd": "/venv/bin/python /verif/sa/run.py %s --tier thorough" % pid,
        "evidence_file": "/verif/evidence/%s.json" % pid,
        "replay_cmd_template": "/venv/bin/python /verif/sa/explain.py {path}",
        "engine": "sa",
        "level_claimed": {
            "category": "other",
            "text": ("Static analysis of /repo's current source (ast; nothing imported or executed). "
                     + ("FULL structural claim: " if pid == "C12" else "PARTIAL: decides named structural clauses that are necessary conditions of the property, not the behaviour itself. ")
                     + sp["explanation"]),
            "design_ref": "DESIGN.md sections A, 0, 3, 4 (%s)" % pid,
        },
        "level_note": "Not decided: %s. Trusted: CPython ast parses the repository as the interpreter would; the documented language/library semantics the rules encode; the rule implementations (tested both ways by /verif/selftest, /verif/neutral and /verif/seeded)." % sp["not_decided"],
        "technique": "static analysis: " + sp["technique"],
    })
old = json.load(open(os.path.join(VERIF, "MANIFEST.json")))
old["checks"] = checks
kf = json.load(open(os.path.join(VERIF, "known_findings.json")))["findings"]
known = [f for f in kf if f.get("status") == "known"]
fixed_commits = sorted({f.get("commit") for f in kf if f.get("status") == "fixed" and f.get("commit")})
old["notes"] = ("All checks are static (technique family: static analysis). Exit 0 = nothing armed fired or only constructs listed in /verif/known_findings.json "
                "(printed as KNOWN-FINDING); exit 1 = unlisted violation (VIOLATION line with replay file); exit 2 = ANALYSIS-ERROR (vanished anchor / vacuity floor / "
                "crash). %d genuine defects were repaired in /repo by 'fix:' commits recorded in known_findings.json, %d known-finding entries remain (%d constructs). "
                "See DESIGN.md." % (len(fixed_commits), len(known), len({(f["rule"], f["where"], f["construct"]) for f in known})))
old["engines"][0]["serves_properties"] = sorted(SPECS)
json.dump(old, open(os.path.join(VERIF, "MANIFEST.json"), "w"), indent=1)
print("MANIFEST.json regenerated: %d checks" % len(checks))
