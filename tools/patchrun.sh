#!/bin/bash
# usage: patchrun.sh <dir with patch.diff> <property id...>   runs the checks on a scratch worktree of /repo HEAD with the patch applied
S=$(basename $1); D=$(cd $1 && pwd); shift
WT=/tmp/pr_$S
git -C /repo worktree add -q --detach $WT HEAD
git -C $WT apply $D/patch.diff || echo "PATCH DOES NOT APPLY"
for P in "$@"; do SA_REPO=$WT SA_NO_SELFCHECK=1 SA_EVIDENCE_DIR=/tmp/pr_ev_$S /venv/bin/python /verif/sa/run.py $P 2>&1 | grep -v WARNING | cut -c1-600 || true; done
git -C /repo worktree remove --force $WT
rm -rf /tmp/pr_ev_$S
