#!/venv/bin/python
"""For behaviour-preserving refactoring patches (dir with patch.diff, diffcheck.py, expected_digest.txt):
(1) confirm: applies to /repo HEAD, baseline passes, diffcheck digest identical with and without the patch;
(2) run every registered check on the patched scratch worktree: any exit status != 0 is a FALSE ALARM of the checker.
usage: check_neutral.py <dir> [<dir> ...]   (prints one line per patch; exit 1 if any false alarm)"""
import json
import os
import shutil
import subprocess
import sys
from concurrent.futures import ThreadPoolExecutor

VERIF = os.path.dirname(os.path.dirname(os.path.abspath(__file__)))


def sh(cmd, **kw):
    p = subprocess.run(cmd, capture_output=True, text=True, **kw)
    return p.returncode, p.stdout + p.stderr


def digest_of(cmd, **kw):
    """sha256 of the complete standard output of the differential check (stderr noise of third-party imports ignored)"""
    import hashlib
    p = subprocess.run(cmd, capture_output=True, text=True, **kw)
    body = p.stdout.strip()
    return "%s rc=%d lines=%d" % (hashlib.sha256(body.encode()).hexdigest()[:32], p.returncode, len(body.splitlines())) if body else ""


def props():
    return [c["property_id"] for c in json.load(open(os.path.join(VERIF, "MANIFEST.json")))["checks"]]


def one(d):
    d = os.path.abspath(d)
    tag = d.rstrip("/").replace("/", "_")[-40:]
    wt = "/tmp/nt_%s_%d" % (tag, os.getpid())
    res = {"dir": d, "alarms": {}, "confirm": {}}
    try:
        sh(["git", "-C", "/repo", "worktree", "add", "-q", "--detach", wt, "HEAD"])
        env = dict(os.environ, PYTHONPATH=wt, PYTHONDONTWRITEBYTECODE="1")
        dc = os.path.join(d, "diffcheck.py")
        if os.path.isfile(dc) and not os.environ.get("SKIP_CONFIRM"):
            res["confirm"]["digest_clean"] = digest_of(["/venv/bin/python", dc], cwd=d, env=env)
        rc, out = sh(["git", "-C", wt, "apply", os.path.join(d, "patch.diff")])
        res["confirm"]["applies"] = rc == 0
        if rc:
            res["confirm"]["err"] = out[-200:]
            return res
        if os.path.isfile(dc) and not os.environ.get("SKIP_CONFIRM"):
            res["confirm"]["digest_patched"] = digest_of(["/venv/bin/python", dc], cwd=d, env=env)
            res["confirm"]["same_digest"] = res["confirm"]["digest_clean"] == res["confirm"]["digest_patched"] != ""
            rc, out = sh(["/venv/bin/python", os.path.join(VERIF, "tools", "baseline.py"), wt])
            res["confirm"]["baseline_ok"] = rc == 0
        ev = wt + "_ev"
        env2 = dict(os.environ, SA_REPO=wt, SA_EVIDENCE_DIR=ev)
        for p in props():
            rc, out = sh(["/venv/bin/python", os.path.join(VERIF, "sa", "run.py"), p], env=env2)
            if rc != 0:
                res["alarms"][p] = [l.strip()[:300] for l in out.splitlines() if l.startswith("  doctrans/") or "ANALYSIS-ERROR" in l][:4]
        shutil.rmtree(ev, ignore_errors=True)
    finally:
        sh(["git", "-C", "/repo", "worktree", "remove", "--force", wt])
    return res


def main():
    dirs = sys.argv[1:]
    with ThreadPoolExecutor(max_workers=8) as ex:
        results = list(ex.map(one, dirs))
    bad = 0
    for r in results:
        ok = not r["alarms"] and r["confirm"].get("applies")
        bad += 0 if ok else 1
        verdict = "silent" if ok else ("PATCH-DOES-NOT-APPLY" if not r["confirm"].get("applies") else "FALSE-ALARM")
        print("%-45s %s confirm=%s" % (r["dir"][-45:], verdict, r["confirm"]))
        for p, lines in r["alarms"].items():
            for l in lines:
                print("      %s: %s" % (p, l))
    return 1 if bad else 0


if __name__ == "__main__":
    sys.exit(main())
