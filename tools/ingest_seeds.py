#!/venv/bin/python
"""Confirm finished seeded changes (tools/verify_seed.py in a private scratch worktree) and store the confirmed ones as
/verif/seeded/<Cxx>-<letter>/ (patch.diff, demo.py, notes.md, meta.json).  usage: ingest_seeds.py <out root> <round> [Cxx ...]"""
import json
import os
import shutil
import subprocess
import sys

VERIF = os.path.dirname(os.path.dirname(os.path.abspath(__file__)))


def sh(cmd, **kw):
    p = subprocess.run(cmd, capture_output=True, text=True, **kw)
    return p.returncode, p.stdout + p.stderr


def main():
    root, rnd = sys.argv[1], int(sys.argv[2])
    props = sys.argv[3:] or sorted(os.listdir(root))
    head = sh(["git", "-C", "/repo", "rev-parse", "HEAD"])[1].strip()
    for p in props:
        for letter in sorted(os.listdir(os.path.join(root, p))):
            d = os.path.join(root, p, letter)
            if not (os.path.isfile(os.path.join(d, "patch.diff")) and os.path.isfile(os.path.join(d, "demo.py"))):
                continue
            dest = os.path.join(VERIF, "seeded", "%s-%s" % (p, letter))
            if os.path.isdir(dest):
                print("%s-%s already stored" % (p, letter))
                continue
            wt = "/tmp/ing_%s_%s_%d" % (p, letter, os.getpid())
            sh(["git", "-C", "/repo", "worktree", "add", "-q", "--detach", wt, "HEAD"])
            try:
                rc, out = sh(["/venv/bin/python", os.path.join(VERIF, "tools", "verify_seed.py"), d, wt])
                res = json.loads([l for l in out.splitlines() if l.startswith("{")][-1])
            finally:
                sh(["git", "-C", "/repo", "worktree", "remove", "--force", wt])
            if not res.get("ok"):
                print("%s-%s NOT CONFIRMED: %s" % (p, letter, {k: v for k, v in res.items() if k not in ("demo_patched_tail",)}))
                continue
            os.makedirs(dest)
            for f in ("patch.diff", "demo.py", "notes.md"):
                if os.path.isfile(os.path.join(d, f)):
                    shutil.copy(os.path.join(d, f), dest)
            meta = {
                "property": p, "variant": letter, "round": rnd,
                "origin": "independent sub-agent (round %d) given only the property record and a scratch worktree of /repo HEAD" % rnd,
                "touches": res.get("touches", []),
                "needs_to_manifest": "see notes.md",
                "verified_by_me": {"how": "/venv/bin/python /verif/tools/verify_seed.py <dir> <scratch worktree of /repo HEAD>", "patch_applies": True,
                                   "baseline_154_pass_with_patch": True, "demo_fails_with_patch": True, "demo_passes_without_patch": True,
                                   "demo_tail_with_patch": res.get("demo_patched_tail", "")[-300:]},
                "base_commit": head,
            }
            json.dump(meta, open(os.path.join(dest, "meta.json"), "w"), indent=1)
            print("%s-%s stored" % (p, letter))


if __name__ == "__main__":
    main()
