#!/venv/bin/python
"""For an independent repair of a recorded defect (dir with patch.diff, demo.py): (1) confirm: demo fails on HEAD, patch
applies, baseline passes, demo passes on the patched tree; (2) run every registered check on the patched scratch worktree:
exit status must be 0 everywhere (no false alarm on the repaired code) and the KNOWN-FINDING lines that disappear are
listed.  usage: check_repair.py <dir> [<dir> ...]"""
import json
import os
import shutil
import subprocess
import sys

VERIF = os.path.dirname(os.path.dirname(os.path.abspath(__file__)))


def sh(cmd, **kw):
    p = subprocess.run(cmd, capture_output=True, text=True, **kw)
    return p.returncode, p.stdout + p.stderr


def props():
    return [c["property_id"] for c in json.load(open(os.path.join(VERIF, "MANIFEST.json")))["checks"]]


def known_lines(out):
    return sorted({" ".join(l.split()[1:5]) for l in out.splitlines() if l.startswith("KNOWN-FINDING")})


def one(d):
    d = os.path.abspath(d)
    wt = "/tmp/rp_%s_%d" % (os.path.basename(d), os.getpid())
    res = {"dir": d, "alarms": {}, "gone": [], "confirm": {}}
    try:
        sh(["git", "-C", "/repo", "worktree", "add", "-q", "--detach", wt, "HEAD"])
        env = dict(os.environ, PYTHONPATH=wt, PYTHONDONTWRITEBYTECODE="1")
        demo = os.path.join(d, "demo.py")
        if not os.environ.get("SKIP_CONFIRM"):
            rc, _ = sh(["/venv/bin/python", demo], cwd=wt, env=env)
            res["confirm"]["demo_fails_on_head"] = rc != 0
        rc, out = sh(["git", "-C", wt, "apply", os.path.join(d, "patch.diff")])
        res["confirm"]["applies"] = rc == 0
        if rc:
            return res
        if not os.environ.get("SKIP_CONFIRM"):
            rc, _ = sh(["/venv/bin/python", demo], cwd=wt, env=env)
            res["confirm"]["demo_passes_repaired"] = rc == 0
            rc, out = sh(["/venv/bin/python", os.path.join(VERIF, "tools", "baseline.py"), wt])
            res["confirm"]["baseline_ok"] = rc == 0
        ev = wt + "_ev"
        for p in props():
            rc0, out0 = sh(["/venv/bin/python", os.path.join(VERIF, "sa", "run.py"), p], env=dict(os.environ, SA_EVIDENCE_DIR=ev))
            rc, out = sh(["/venv/bin/python", os.path.join(VERIF, "sa", "run.py"), p], env=dict(os.environ, SA_REPO=wt, SA_EVIDENCE_DIR=ev))
            if rc != 0:
                res["alarms"][p] = [l.strip()[:300] for l in out.splitlines() if l.startswith("  doctrans/") or "ANALYSIS-ERROR" in l][:6]
            res["gone"] += ["%s: %s" % (p, k) for k in known_lines(out0) if k not in known_lines(out)]
        shutil.rmtree(ev, ignore_errors=True)
    finally:
        sh(["git", "-C", "/repo", "worktree", "remove", "--force", wt])
    return res


def main():
    bad = 0
    for d in sys.argv[1:]:
        r = one(d)
        ok = not r["alarms"] and r["confirm"].get("applies")
        bad += 0 if ok else 1
        print("%-40s %s confirm=%s" % (r["dir"][-40:], "silent" if ok else "FALSE-ALARM", r["confirm"]))
        for g in r["gone"]:
            print("      known finding no longer reported: %s" % g)
        for p, lines in r["alarms"].items():
            for l in lines:
                print("      %s: %s" % (p, l))
    return 1 if bad else 0


if __name__ == "__main__":
    sys.exit(main())
