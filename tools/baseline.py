#!/venv/bin/python
"""Run the pinned baseline command on a tree (default /repo) and compare the set of passing tests with
/root/.vp/BASELINE.json stable_pass.  Exit 0 iff every stable_pass test still passes.
Used when validating `fix:` commits and seeded changes (not a property check)."""
import json, subprocess, sys, tempfile, os, xml.etree.ElementTree as ET

def run(repo="/repo"):
    base = json.load(open("/root/.vp/BASELINE.json"))
    with tempfile.TemporaryDirectory() as td:
        xmlp = os.path.join(td, "j.xml")
        cmd = ["/venv/bin/python", "-m", "pytest", "-q", "-p", "no:cacheprovider", "--timeout=900",
               "--continue-on-collection-errors", "--junitxml=" + xmlp]
        env = dict(os.environ, PYTHONPATH=repo)
        p = subprocess.run(cmd, cwd=repo, capture_output=True, text=True, env=env)
        passed = set()
        for tc in ET.parse(xmlp).getroot().iter("testcase"):
            if not any(c.tag in ("failure", "error", "skipped") for c in tc):
                passed.add("%s::%s" % (tc.get("classname"), tc.get("name")))
    want = set(base["stable_pass"])
    missing = sorted(want - passed)
    print("baseline: %d/%d stable tests pass; extra passing: %d" % (len(want & passed), len(want), len(passed - want)))
    for m in missing:
        print("  MISSING", m)
    return 0 if not missing else 1

if __name__ == "__main__":
    sys.exit(run(sys.argv[1] if len(sys.argv) > 1 else "/repo"))
