#!/venv/bin/python
"""Re-confirm every live seeded change against /repo's current HEAD (after `fix:` commits moved it): applies, baseline
passes with it, demo fails with it and passes without it.  Records `reverified_on` in meta.json; prints the ones that no
longer qualify.  usage: reverify_seeds.py [seed ids...]"""
import json
import os
import subprocess
import sys
from concurrent.futures import ThreadPoolExecutor

VERIF = os.path.dirname(os.path.dirname(os.path.abspath(__file__)))
HEAD = subprocess.run(["git", "-C", "/repo", "rev-parse", "HEAD"], capture_output=True, text=True).stdout.strip()


def one(sid):
    d = os.path.join(VERIF, "seeded", sid)
    wt = "/tmp/rv_%s_%d" % (sid, os.getpid())
    subprocess.run(["git", "-C", "/repo", "worktree", "add", "-q", "--detach", wt, "HEAD"], capture_output=True)
    try:
        p = subprocess.run(["/venv/bin/python", os.path.join(VERIF, "tools", "verify_seed.py"), d, wt], capture_output=True, text=True)
        line = [l for l in p.stdout.splitlines() if l.startswith("{")]
        res = json.loads(line[-1]) if line else {"error": (p.stdout + p.stderr)[-300:]}
    finally:
        subprocess.run(["git", "-C", "/repo", "worktree", "remove", "--force", wt], capture_output=True)
    ok = res.get("applies") and res.get("baseline_ok") and res.get("demo_patched_fails") and res.get("demo_clean_pass")
    if ok:
        mp = os.path.join(d, "meta.json")
        m = json.load(open(mp))
        m["reverified_on"] = HEAD
        json.dump(m, open(mp, "w"), indent=1)
    return sid, ok, res


if __name__ == "__main__":
    ids = sys.argv[1:] or sorted(x for x in os.listdir(os.path.join(VERIF, "seeded")) if os.path.isfile(os.path.join(VERIF, "seeded", x, "patch.diff")))
    bad = 0
    with ThreadPoolExecutor(8) as ex:
        for sid, ok, res in ex.map(one, ids):
            if not ok:
                bad += 1
                print("NOT-CONFIRMED", sid, {k: res.get(k) for k in ("applies", "baseline_ok", "demo_patched_fails", "demo_clean_pass", "apply_err", "error", "demo_patched_tail")})
    print("reverified %d seeds on %s: %d no longer confirmed" % (len(ids), HEAD[:7], bad))
    sys.exit(1 if bad else 0)
