#!/bin/bash
# usage: rebase_seed.sh <seed dir> <old base commit>   re-creates patch.diff on /repo HEAD by a three-way rebase in a scratch worktree;
# the previous form is kept as patch.orig-<old>.diff.  Prints CONFLICT and leaves the seed untouched when git cannot do it alone.
D=$(cd $1 && pwd); OLD=$2; S=$(basename $D); WT=/tmp/rb_$S
NEW=$(git -C /repo rev-parse HEAD)
git -C /repo worktree add -q --detach $WT $OLD || exit 2
if git -C $WT apply $D/patch.diff && git -C $WT -c user.name=x -c user.email=x@x commit -qam seed; then
  if git -C $WT -c user.name=x -c user.email=x@x rebase -q --onto $NEW $OLD >/dev/null 2>&1; then
    cp $D/patch.diff $D/patch.orig-$(echo $OLD | cut -c1-7).diff
    git -C $WT diff $NEW HEAD > $D/patch.diff
    echo "REBASED $S"
  else
    git -C $WT rebase --abort 2>/dev/null
    echo "CONFLICT $S"
  fi
else
  echo "OLD-PATCH-DOES-NOT-APPLY $S"
fi
git -C /repo worktree remove --force $WT
